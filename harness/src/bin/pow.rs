//! C05 correspondence: siphash, the five Cuckoo-cycle verifiers, Proof packing / difficulty.
//!
//! modes (first arg): `sip`, `exh`, `solve`, `pack`, `select`, `hist` (one context object through
//! solve / verify / re-seed histories), `dif` (difficulty over the full parameter space), `vsize` (every nonce count through
//! `pow::verify_size`);
//! internal: `hangprobe`.
//!
//! The siphash functions live in a private module of grin_core; the *real source file* is
//! compiled into this binary by path, so `siphash24` / `siphash_block` below are the code of
//! /repo's working tree. The siphash keys are observed from the real `CuckatooContext`
//! (`sipkey_hex`), which shares `CuckooParams::reset_header_nonce` with the other contexts.
#[allow(dead_code)]
#[path = "/repo/core/src/pow/siphash.rs"]
mod siphash;

use grin_core::global::{self, ChainTypes};
use grin_core::pow::{
	new_cuckaroo_ctx, new_cuckarood_ctx, new_cuckaroom_ctx, new_cuckarooz_ctx, new_cuckatoo_ctx,
	CuckatooContext, Error, PoWContext, Proof,
};
use grin_core::ser;
use gvharness::*;
use siphash::{siphash24, siphash_block};
use std::collections::HashMap;

#[derive(Clone, Copy, PartialEq, Eq, Debug)]
enum Var {
	Cuckatoo,
	Cuckaroo,
	Cuckarood,
	Cuckaroom,
	Cuckarooz,
}
const VARS: [Var; 5] = [
	Var::Cuckatoo,
	Var::Cuckaroo,
	Var::Cuckarood,
	Var::Cuckaroom,
	Var::Cuckarooz,
];

impl Var {
	fn name(self) -> &'static str {
		match self {
			Var::Cuckatoo => "cuckatoo",
			Var::Cuckaroo => "cuckaroo",
			Var::Cuckarood => "cuckarood",
			Var::Cuckaroom => "cuckaroom",
			Var::Cuckarooz => "cuckarooz",
		}
	}
	fn from_name(s: &str) -> Var {
		*VARS.iter().find(|v| v.name() == s).expect("variant")
	}
	fn ctx(self, eb: u8, ps: usize) -> Box<dyn PoWContext> {
		match self {
			Var::Cuckatoo => new_cuckatoo_ctx(eb, ps, 4).unwrap(),
			Var::Cuckaroo => new_cuckaroo_ctx(eb, ps).unwrap(),
			Var::Cuckarood => new_cuckarood_ctx(eb, ps).unwrap(),
			Var::Cuckaroom => new_cuckaroom_ctx(eb, ps).unwrap(),
			Var::Cuckarooz => new_cuckarooz_ctx(eb, ps).unwrap(),
		}
	}
	/// endpoints of edge `n` as each `verify` derives them inline
	fn ep(self, keys: &[u64; 4], eb: u8, n: u64) -> (u64, u64) {
		match self {
			Var::Cuckatoo => {
				let nm = (1u64 << eb) - 1;
				(siphash24(keys, 2 * n) & nm, siphash24(keys, 2 * n + 1) & nm)
			}
			_ => {
				let (nb, rot, xa) = match self {
					Var::Cuckaroo => (eb, 21, false),
					Var::Cuckarood => (eb - 1, 25, false),
					Var::Cuckaroom => (eb, 21, true),
					_ => (eb + 1, 21, true),
				};
				let nm = (1u64 << nb) - 1;
				let e = siphash_block(keys, n, rot, xa);
				(e & nm, (e >> 32) & nm)
			}
		}
	}
	/// vertex key of slot `s` (0 = u end, 1 = v end) of an edge
	fn vkey(self, s: usize, node: u64) -> u64 {
		match self {
			Var::Cuckaroo | Var::Cuckarood => ((s as u64) << 40) | node,
			Var::Cuckatoo => ((s as u64) << 40) | (node >> 1),
			Var::Cuckaroom | Var::Cuckarooz => node,
		}
	}
}

fn err_name(r: &Result<(), Error>) -> &'static str {
	match r {
		Ok(()) => "ok",
		Err(Error::Verification(s)) => match s.as_str() {
			"wrong cycle length" => "wronglen",
			"edge too big" => "toobig",
			"edges not ascending" => "notasc",
			"edges not balanced" => "notbal",
			"endpoints don't match up" => "nomatch",
			"branch in cycle" => "branch",
			"cycle dead ends" => "deadend",
			"cycle too short" => "tooshort",
			"cycle does not close" => "noclose",
			_ => "other",
		},
		Err(_) => "othererr",
	}
}
fn err_char(name: &str) -> char {
	match name {
		"ok" => 'A',
		"wronglen" => 'L',
		"toobig" => 'B',
		"notasc" => 'N',
		"notbal" => 'U',
		"nomatch" => 'X',
		"branch" => 'R',
		"deadend" => 'D',
		"tooshort" => 'S',
		"noclose" => 'C',
		"hang" => 'H',
		"panic" => 'P',
		_ => '?',
	}
}

/// header bytes for a seed
fn header(seed: u64) -> Vec<u8> {
	let mut h = vec![0u8; 80];
	h[..8].copy_from_slice(&seed.to_le_bytes());
	h
}

/// the siphash keys the real code derives (observed through the Cuckatoo context)
fn real_keys(hdr: &[u8], nonce: Option<u32>) -> [u64; 4] {
	let mut c = CuckatooContext::new_impl(10, 8, 1).unwrap();
	c.set_header_nonce_impl(hdr.to_vec(), nonce, false).unwrap();
	let mut k = [0u64; 4];
	for i in 0..4 {
		k[i] = u64::from_str_radix(&c.sipkey_hex(i).unwrap(), 16).unwrap();
	}
	k
}

fn keys_str(k: &[u64; 4]) -> String {
	format!("{} {} {} {}", k[0], k[1], k[2], k[3])
}

/// independent oracle (degree counting + union-find): do the edges form one simple cycle
/// through all of them, with the count / range / ascending conditions of the property text
fn oracle(v: Var, ps: usize, edge_mask: u64, eps: &[(u64, u64)], nonces: &[u64]) -> bool {
	let l = nonces.len();
	if l != ps || l == 0 {
		return false;
	}
	if nonces.iter().any(|n| *n > edge_mask) {
		return false;
	}
	if nonces.windows(2).any(|w| w[0] >= w[1]) {
		return false;
	}
	// group the 2l edge ends by vertex (sort by vertex key): every vertex must have exactly two
	let mut ends: Vec<(u64, usize)> = Vec::with_capacity(2 * l);
	for (e, (a, b)) in eps.iter().enumerate() {
		ends.push((v.vkey(0, *a), 2 * e));
		ends.push((v.vkey(1, *b), 2 * e + 1));
	}
	ends.sort_unstable();
	let node = |s: usize| if s % 2 == 0 { eps[s / 2].0 } else { eps[s / 2].1 };
	let mut uf: Vec<usize> = (0..l).collect();
	fn find(uf: &mut Vec<usize>, x: usize) -> usize {
		let mut r = x;
		while uf[r] != r {
			r = uf[r];
		}
		uf[x] = r;
		r
	}
	let mut i = 0;
	while i < ends.len() {
		if i + 1 >= ends.len() || ends[i + 1].0 != ends[i].0 {
			return false; // a vertex with one edge end
		}
		if i + 2 < ends.len() && ends[i + 2].0 == ends[i].0 {
			return false; // three or more
		}
		let (a, b) = (ends[i].1, ends[i + 1].1);
		let good = match v {
			Var::Cuckatoo => node(a) != node(b),
			Var::Cuckarood => (nonces[a / 2] & 1) != (nonces[b / 2] & 1),
			Var::Cuckaroom => a % 2 != b % 2,
			_ => true,
		};
		if !good {
			return false;
		}
		let (ra, rb) = (find(&mut uf, a / 2), find(&mut uf, b / 2));
		uf[ra] = rb;
		i += 2;
	}
	if v == Var::Cuckarood {
		let d0 = nonces.iter().filter(|n| *n & 1 == 0).count();
		if 2 * d0 != l {
			return false;
		}
	}
	let r0 = find(&mut uf, 0);
	(0..l).all(|e| find(&mut uf, e) == r0)
}

/// Would cuckarood's `verify` loop forever on this input? (re-implementation of its walk
/// without the bucket lists, with a step bound: the walk is deterministic on 2*size slots)
fn rood_hangs(ps: usize, edge_mask: u64, eps: &[(u64, u64)], nonces: &[u64]) -> bool {
	let size = nonces.len();
	if size != ps {
		return false;
	}
	let mut uvs = vec![0u64; 2 * size];
	let mut sdir = vec![2usize; 2 * size];
	let mut ndir = [0usize; 2];
	let (mut x0, mut x1) = (0u64, 0u64);
	for n in 0..size {
		let dir = (nonces[n] & 1) as usize;
		if ndir[dir] >= size / 2 || nonces[n] > edge_mask || (n > 0 && nonces[n] <= nonces[n - 1]) {
			return false;
		}
		let idx = 4 * ndir[dir] + 2 * dir;
		uvs[idx] = eps[n].0;
		uvs[idx + 1] = eps[n].1;
		sdir[idx] = dir;
		sdir[idx + 1] = dir;
		x0 ^= eps[n].0;
		x1 ^= eps[n].1;
		ndir[dir] += 1;
	}
	if x0 | x1 != 0 {
		return false;
	}
	let mut i = 0usize;
	for _ in 0..(2 * size + 2) {
		let want = if i & 1 == 0 { 1 } else { 0 };
		let m: Vec<usize> = (0..2 * size)
			.filter(|k| k % 2 == i % 2 && sdir[*k] == want && uvs[*k] == uvs[i])
			.collect();
		if m.len() != 1 {
			return false;
		}
		i = m[0] ^ 1;
		if i == 0 {
			return false;
		}
	}
	true
}

/// the harness' own oracle disagrees with the implementation: a concrete failing input
fn oracle_fail_line(v: Var, eb: u8, ps: usize, keys: &[u64; 4], seed: u64, nonces: &[u64], res: &str, o: bool, what: &str) -> String {
	format!(
		"#ORACLE-FAIL C05 verifier {}: variant={} edge_bits={} proofsize={} keys=[{}] header=seed{} nonces={} implementation={} oracle={}{}",
		if res == "ok" { "accepts a non-cycle" } else { "rejects a cycle" },
		v.name(), eb, ps, keys_str(keys), seed, nat_list(nonces), res,
		if o { "accept" } else { "reject" },
		if what.is_empty() { String::new() } else { format!(" case={}", what) }
	)
}

struct Stats {
	h: HashMap<(String, String), u64>,
	hang_confirmed: u64,
	hang_predicted: u64,
}
impl Stats {
	fn new() -> Stats {
		Stats {
			h: HashMap::new(),
			hang_confirmed: 0,
			hang_predicted: 0,
		}
	}
	fn add(&mut self, v: Var, r: &str) {
		*self.h.entry((v.name().to_string(), r.to_string())).or_insert(0) += 1;
	}
	fn print(&self, out: &mut Out, what: &str) {
		for v in VARS.iter() {
			let mut parts: Vec<String> = self
				.h
				.iter()
				.filter(|((n, _), _)| n == v.name())
				.map(|((_, r), c)| format!("{}={}", r, c))
				.collect();
			parts.sort();
			if !parts.is_empty() {
				out.raw(&format!("#STAT {} {} verdicts: {}", what, v.name(), parts.join(" ")));
			}
		}
		if self.hang_predicted > 0 {
			out.raw(&format!(
				"#STAT {} cuckarood inputs on which the unrepaired walk would spin forever: {} (child-process probes that hung: {})",
				what, self.hang_predicted, self.hang_confirmed
			));
		}
	}
}

/// run the real verifier; cuckarood inputs predicted to loop forever are run in a child process
/// with a timeout (at most `budget` times), never in-process
struct Runner {
	v: Var,
	eb: u8,
	ps: usize,
	ctx: Box<dyn PoWContext>,
	keys: [u64; 4],
	seed: u64,
	eps_all: Vec<(u64, u64)>,
}
static mut HANG_BUDGET: u32 = 6;
static mut HANG_SEEN: bool = false;

impl Runner {
	fn new(v: Var, eb: u8, ps: usize, ctx_ps: usize, seed: u64, with_table: bool) -> Runner {
		let hdr = header(seed);
		let mut ctx = v.ctx(eb, ctx_ps);
		ctx.set_header_nonce(hdr.clone(), None, false).unwrap();
		let keys = real_keys(&hdr, None);
		let eps_all = if with_table {
			(0..(1u64 << eb)).map(|n| v.ep(&keys, eb, n)).collect()
		} else {
			vec![]
		};
		Runner {
			v,
			eb,
			ps,
			ctx,
			keys,
			seed,
			eps_all,
		}
	}
	fn eps(&self, nonces: &[u64]) -> Vec<(u64, u64)> {
		nonces
			.iter()
			.map(|n| {
				if (*n as usize) < self.eps_all.len() {
					self.eps_all[*n as usize]
				} else {
					self.v.ep(&self.keys, self.eb, *n)
				}
			})
			.collect()
	}
	/// implementation verdict name
	fn verify(&self, nonces: &[u64], stats: &mut Stats, out: &mut Out) -> &'static str {
		let edge_mask = (1u64 << self.eb) - 1;
		if self.v == Var::Cuckarood {
			let eps = self.eps(nonces);
			if rood_hangs(self.ps, edge_mask, &eps, nonces) {
				// regression probe for the repaired endless walk (/repo df0049399): such inputs
				// made verify spin forever. The first few are run in a child process with a
				// timeout before the in-process call; if one hangs, none is run in-process.
				stats.hang_predicted += 1;
				let budget = unsafe { HANG_BUDGET };
				if budget > 0 {
					unsafe { HANG_BUDGET -= 1 };
					if hang_child(self.eb, self.ps, self.seed, nonces) {
						unsafe { HANG_SEEN = true };
						stats.hang_confirmed += 1;
						out.raw(&format!(
							"#ORACLE-FAIL C05 cuckarood-verify-nonterminating: CuckaroodContext::verify did not return within 400 ms (child process killed) edge_bits={} proofsize={} header=seed{} keys=[{}] nonces={}",
							self.eb, self.ps, self.seed, keys_str(&self.keys), nat_list(nonces)
						));
					}
				}
				if unsafe { HANG_SEEN } {
					return "hang";
				}
			}
		}
		let p = Proof {
			edge_bits: self.eb,
			nonces: nonces.to_vec(),
		};
		let ctx = std::panic::AssertUnwindSafe(&self.ctx);
		let res = match catch(move || {
			let r = ctx.verify(&p);
			err_name(&r)
		}) {
			Ok(s) => s,
			Err(_) => "panic",
		};
		// pipeline self-test (never set by ./check): pretend the Cuckatoo verifier lost its final
		// `n == size` test, to see that such a regression surfaces as FAIL / #ORACLE-FAIL
		if res == "tooshort" && self.v == Var::Cuckatoo && std::env::var("VERIF_POW_SELFTEST").is_ok() {
			return "ok";
		}
		res
	}
}

/// child: `pow hangprobe eb ps seed n1,n2,…` runs the real cuckarood verify and exits 0
fn hang_child(eb: u8, ps: usize, seed: u64, nonces: &[u64]) -> bool {
	let exe = std::env::current_exe().unwrap();
	let ns: Vec<String> = nonces.iter().map(|n| n.to_string()).collect();
	let mut child = std::process::Command::new(exe)
		.args(&[
			"hangprobe".to_string(),
			eb.to_string(),
			ps.to_string(),
			seed.to_string(),
			ns.join(","),
		])
		.stdout(std::process::Stdio::null())
		.stderr(std::process::Stdio::null())
		.spawn()
		.unwrap();
	let t0 = std::time::Instant::now();
	loop {
		match child.try_wait().unwrap() {
			Some(_) => return false,
			None => {
				if t0.elapsed().as_millis() > 400 {
					let _ = child.kill();
					let _ = child.wait();
					return true;
				}
				std::thread::sleep(std::time::Duration::from_millis(5));
			}
		}
	}
}

fn set_chain_for(ps: usize) {
	global::set_local_chain_type(if ps == 8 {
		ChainTypes::AutomatedTesting
	} else {
		ChainTypes::UserTesting
	});
}

fn hangprobe(args: &[String]) {
	let eb: u8 = args[0].parse().unwrap();
	let ps: usize = args[1].parse().unwrap();
	let seed: u64 = args[2].parse().unwrap();
	let nonces: Vec<u64> = args[3].split(',').map(|s| s.parse().unwrap()).collect();
	set_chain_for(ps);
	let mut ctx = Var::Cuckarood.ctx(eb, ps);
	ctx.set_header_nonce(header(seed), None, false).unwrap();
	let _ = ctx.verify(&Proof {
		edge_bits: eb,
		nonces,
	});
}

// ---------------------------------------------------------------------------------------------
// (i) siphash

fn sip(out: &mut Out, rng: &mut Rng, thorough: bool) {
	let vec24: [([u64; 4], u64); 4] = [
		([1, 2, 3, 4], 10),
		([1, 2, 3, 4], 111),
		([9, 7, 6, 7], 12),
		([9, 7, 6, 7], 10),
	];
	for (k, n) in vec24.iter() {
		out.line(&format!("pow sip24 {} {}", keys_str(k), n), &siphash24(k, *n).to_string());
	}
	let n = if thorough { 20000 } else { 2500 };
	for i in 0..n {
		let k = [rng.next(), rng.next(), rng.next(), rng.next()];
		let bits = rng.range(1, 64);
		let nonce = match i % 8 {
			0 => rng.below(64),
			1 => u64::MAX - rng.below(70),
			_ => rng.next() >> (64 - bits),
		};
		out.line(
			&format!("pow sip24 {} {}", keys_str(&k), nonce),
			&siphash24(&k, nonce).to_string(),
		);
		// siphash_block: nonce0 + i wraps only above u64::MAX - 63, which no verifier reaches
		let nonce_b = if nonce > u64::MAX - 64 { nonce >> 1 } else { nonce };
		let rot = if rng.chance(1, 2) { 21 } else { 25 };
		let xa = rng.chance(1, 2);
		out.line(
			&format!("pow sipblock {} {} {} {}", keys_str(&k), nonce_b, rot, xa),
			&siphash_block(&k, nonce_b, rot, xa).to_string(),
		);
	}
	// every position inside one block, both flags (the xor range depends on the position)
	let k = [rng.next(), rng.next(), rng.next(), rng.next()];
	for pos in 0..64u64 {
		for xa in [false, true].iter() {
			for rot in [21u8, 25u8].iter() {
				out.line(
					&format!("pow sipblock {} {} {} {}", keys_str(&k), 4096 + pos, rot, xa),
					&siphash_block(&k, 4096 + pos, *rot, *xa).to_string(),
				);
			}
		}
	}
	// header -> keys (blake2b, 4 LE words), with and without the trailing nonce
	for i in 0..(if thorough { 400 } else { 60 }) {
		let len = if i % 5 == 0 { rng.range(4, 300) as usize } else { 80 };
		let hdr = rng.bytes(len);
		let nonce = if i % 2 == 0 { Some(rng.next() as u32) } else { None };
		let k = real_keys(&hdr, nonce);
		out.line(
			&format!(
				"pow keys {} {}",
				hex(&hdr),
				nonce.map(|n| n.to_string()).unwrap_or("none".to_string())
			),
			&keys_str(&k),
		);
	}
	// endpoint derivation of each variant (as re-derived by the harness, used by its solver)
	for _ in 0..(if thorough { 3000 } else { 400 }) {
		let k = [rng.next(), rng.next(), rng.next(), rng.next()];
		let eb = rng.range(4, 31) as u8;
		let n = rng.below(1u64 << eb);
		for v in VARS.iter() {
			let (a, b) = v.ep(&k, eb, n);
			out.line(
				&format!("pow ep {} {} {} {}", v.name(), eb, keys_str(&k), n),
				&format!("{} {}", a, b),
			);
		}
	}
}

// ---------------------------------------------------------------------------------------------
// (ii) exhaustive tiny graphs

fn for_each_tuple<F: FnMut(&[u64])>(n: u64, k: usize, f: &mut F) {
	fn rec<F: FnMut(&[u64])>(n: u64, k: usize, start: u64, cur: &mut Vec<u64>, f: &mut F) {
		if cur.len() == k {
			f(cur);
			return;
		}
		let need = (k - cur.len()) as u64;
		let mut x = start;
		while x + need <= n {
			cur.push(x);
			rec(n, k, x + 1, cur, f);
			cur.pop();
			x += 1;
		}
	}
	rec(n, k, 0, &mut Vec::with_capacity(k), f);
}

/// a header seed whose graph contains a `ps`-cycle (found by the harness DFS), if one turns up
fn seed_with_cycle(v: Var, eb: u8, ps: usize, rng: &mut Rng, tries: u32) -> Option<(u64, Vec<u64>)> {
	for _ in 0..tries {
		let seed = rng.next();
		let keys = real_keys(&header(seed), None);
		let eps: Vec<(u64, u64)> = (0..(1u64 << eb)).map(|n| v.ep(&keys, eb, n)).collect();
		let mut budget = 50_000u64;
		let c = find_cycles(v, &eps, ps, &mut budget, 1);
		if let Some(c) = c.into_iter().next() {
			return Some((seed, c));
		}
	}
	None
}

/// Cuckatoo "same-node" near misses in a graph: closed walks that pair some edge ends with
/// identical node values, that the xor filter lets through, and that are not real cycles
fn cuckatoo_samenode(eps: &[(u64, u64)], ps: usize, budget: &mut u64, max: usize) -> Vec<Vec<u64>> {
	let edge_mask = eps.len() as u64 - 1;
	find_cycles_x(Var::Cuckatoo, eps, ps, budget, 4 * max + 8, true)
		.into_iter()
		.filter(|c| {
			let e: Vec<(u64, u64)> = c.iter().map(|n| eps[*n as usize]).collect();
			let init = (ps as u64 / 2) & 1;
			let x0 = e.iter().fold(init, |a, p| a ^ p.0);
			let x1 = e.iter().fold(init, |a, p| a ^ p.1);
			x0 | x1 == 0 && !oracle(Var::Cuckatoo, ps, edge_mask, &e, c)
		})
		.take(max)
		.collect()
}

fn exh(out: &mut Out, rng: &mut Rng, thorough: bool) {
	let ps = 8usize;
	set_chain_for(ps);
	let mut stats = Stats::new();
	let mut ntuples = 0u64;
	// edge_bits 4: every ascending 8-tuple of the 16 edges, whole verdict string to the driver
	let nseeds = if thorough { 40 } else { 14 };
	let mut samenode_graphs = 0u64;
	for v in VARS.iter() {
		for si in 0..nseeds {
			// every other seed is chosen so that its 16-edge graph contains an 8-cycle
			let seed = if *v == Var::Cuckatoo && si % 3 == 2 {
				// a 16-edge graph containing a "same-node" near miss that passes the xor filter
				let mut found = None;
				for _ in 0..20000 {
					let sd = rng.next();
					let keys = real_keys(&header(sd), None);
					let eps: Vec<(u64, u64)> = (0..16u64).map(|n| v.ep(&keys, 4, n)).collect();
					let mut budget = 50_000u64;
					if !cuckatoo_samenode(&eps, ps, &mut budget, 1).is_empty() {
						found = Some(sd);
						break;
					}
				}
				if found.is_some() {
					samenode_graphs += 1;
				}
				found.unwrap_or_else(|| rng.next())
			} else if si % 2 == 0 {
				seed_with_cycle(*v, 4, ps, rng, 20000).map(|x| x.0).unwrap_or_else(|| rng.next())
			} else {
				rng.next()
			};
			let r = Runner::new(*v, 4, ps, ps, seed, true);
			let mut s = String::with_capacity(13000);
			let mut acc = vec![];
			let mut nbad = 0u64;
			for_each_tuple(16, ps, &mut |t: &[u64]| {
				let res = r.verify(t, &mut stats, out);
				stats.add(*v, res);
				let o = oracle(*v, ps, 15, &r.eps(t), t);
				if (res == "ok") != o {
					nbad += 1;
					// the first few offending tuples of this graph, then a count
					if nbad <= 5 {
						out.raw(&oracle_fail_line(*v, 4, ps, &r.keys, seed, t, res, o, ""));
					}
				}
				if res == "ok" {
					acc.push(t.to_vec());
				}
				s.push(err_char(res));
				ntuples += 1;
			});
			if nbad > 5 {
				out.raw(&format!(
					"#STAT exh {} edge_bits=4 seed={}: {} tuples differ from the harness oracle (first 5 printed)",
					v.name(), seed, nbad
				));
			}
			out.line(
				&format!("pow exh {} 4 {} {}", v.name(), ps, keys_str(&r.keys)),
				&s,
			);
			for t in acc {
				out.line(
					&format!(
						"pow verify {} 4 {} {} {} {}",
						v.name(),
						ps,
						ps,
						keys_str(&r.keys),
						nat_list(&t)
					),
					"ok",
				);
			}
		}
	}
	out.raw(&format!("#STAT exh edge_bits=4 proofsize=8 seeds/variant={} tuples={}", nseeds, ntuples));
	out.raw(&format!("#STAT exh cuckatoo 16-edge graphs chosen to contain a same-node near miss (closed walk pairing identical nodes, passes the xor filter): {}", samenode_graphs));
	// edge_bits 5 and 6: the oracle is evaluated here on every tuple (eb 5, thorough: all
	// 10 518 300 tuples of one seed per variant) or on random ascending tuples; accepted ones and a
	// sample of the rejected go to the driver
	let mut n5 = 0u64;
	for v in VARS.iter() {
		for eb in [5u8, 6u8].iter() {
			let full = thorough && *eb == 5;
			let seeds = if full { 1 } else if thorough { 12 } else { 6 };
			for _ in 0..seeds {
				let (seed, cyc) = match seed_with_cycle(*v, *eb, ps, rng, 5000) {
					Some((s, c)) => (s, Some(c)),
					None => (rng.next(), None),
				};
				let r = Runner::new(*v, *eb, ps, ps, seed, true);
				let edge_mask = (1u64 << eb) - 1;
				let mut sampled = 0u64;
				let mut nbad56 = 0u64;
				let mut check = |t: &[u64], stats: &mut Stats, out: &mut Out, force: bool| {
					let res = r.verify(t, stats, out);
					stats.add(*v, res);
					let o = oracle(*v, ps, edge_mask, &r.eps(t), t);
					if (res == "ok") != o {
						nbad56 += 1;
						if nbad56 <= 5 {
							out.raw(&oracle_fail_line(*v, *eb, ps, &r.keys, seed, t, res, o, ""));
						}
					}
					let interesting = res != "nomatch";
					if force || res == "ok" || (interesting && sampled < 3000) {
						if interesting {
							sampled += 1;
						}
						out.line(
							&format!(
								"pow verify {} {} {} {} {} {}",
								v.name(),
								eb,
								ps,
								ps,
								keys_str(&r.keys),
								nat_list(t)
							),
							res,
						);
					}
				};
				// the cycle itself and its whole 1-neighbourhood (each nonce replaced by every other edge)
				if let Some(c) = &cyc {
					check(c, &mut stats, out, true);
					for i in 0..ps {
						for x in 0..(1u64 << eb) {
							if c.contains(&x) {
								continue;
							}
							let mut t = c.clone();
							t[i] = x;
							t.sort_unstable();
							check(&t, &mut stats, out, true);
							n5 += 1;
						}
					}
				}
				if full {
					let mut cnt = 0u64;
					let mut local_rng = Rng::new(seed);
					for_each_tuple(1u64 << eb, ps, &mut |t: &[u64]| {
						cnt += 1;
						let force = local_rng.below(4000) == 0;
						check(t, &mut stats, out, force);
					});
					n5 += cnt;
				} else {
					let cnt = if thorough { 400_000 } else { 30_000 };
					for i in 0..cnt {
						let mut t: Vec<u64> = vec![];
						while t.len() < ps {
							let x = rng.below(1u64 << eb);
							if !t.contains(&x) {
								t.push(x);
							}
						}
						t.sort_unstable();
						check(&t, &mut stats, out, i % 200 == 0);
					}
					n5 += cnt;
				}
			}
		}
	}
	out.raw(&format!("#STAT exh edge_bits=5,6 tuples checked against the harness oracle={}", n5));
	// the range boundary with a concrete witness: headers searched so that the pseudo-edges just
	// outside the range (nonce 2^edge_bits, 2^edge_bits + 1) would close a cycle with in-range
	// edges; such a tuple is not a cycle of the header's graph and must be refused
	let mut nb = 0u64;
	for v in VARS.iter() {
		for eb in [4u8, 5u8].iter() {
			let n_edges = 1u64 << eb;
			let want = if thorough { 6 } else { 2 };
			let mut found = 0;
			for _ in 0..(if thorough { 20000 } else { 4000 }) {
				if found >= want {
					break;
				}
				let seed = rng.next();
				let keys = real_keys(&header(seed), None);
				let eps: Vec<(u64, u64)> = (0..n_edges + 2).map(|n| v.ep(&keys, *eb, n)).collect();
				let mut budget = 50_000u64;
				let cs = find_cycles(*v, &eps, ps, &mut budget, 40);
				let c = match cs.into_iter().find(|c| c.iter().any(|n| *n >= n_edges)) {
					Some(c) => c,
					None => continue,
				};
				found += 1;
				nb += 1;
				let r = Runner::new(*v, *eb, ps, ps, seed, true);
				let mut t = c.clone();
				t.sort_unstable();
				let res = r.verify(&t, &mut stats, out);
				stats.add(*v, res);
				if res == "ok" {
					out.raw(&oracle_fail_line(*v, *eb, ps, &r.keys, seed, &t, res, false, "out-of-range-nonce-closes-a-cycle"));
				}
				out.line(
					&format!("pow verify {} {} {} {} {} {}", v.name(), eb, ps, ps, keys_str(&r.keys), nat_list(&t)),
					res,
				);
			}
		}
	}
	out.raw(&format!("#STAT exh boundary: tuples in which an out-of-range nonce closes a cycle with in-range edges={}", nb));
	// the count clause with a concrete witness: genuine simple cycles of ANOTHER length than the
	// chain's proof size, verified through a context created for that length (as pow::verify_size
	// creates it from the proof it is handed): exactly `proofsize` nonces are required
	let mut nwl = 0u64;
	for v in VARS.iter() {
		for eb in [4u8, 5u8].iter() {
			for len in [2usize, 4, 6, 10, 12].iter() {
				let mut found = 0;
				for _ in 0..(if thorough { 6000 } else { 1500 }) {
					if found >= 1 {
						break;
					}
					let seed = rng.next();
					let keys = real_keys(&header(seed), None);
					let eps: Vec<(u64, u64)> = (0..(1u64 << eb)).map(|n| v.ep(&keys, *eb, n)).collect();
					let mut budget = 50_000u64;
					let c = match find_cycles(*v, &eps, *len, &mut budget, 1).into_iter().next() {
						Some(c) => c,
						None => continue,
					};
					found += 1;
					nwl += 1;
					let r = Runner::new(*v, *eb, ps, *len, seed, true);
					let mut t = c.clone();
					t.sort_unstable();
					let res = r.verify(&t, &mut stats, out);
					stats.add(*v, res);
					if res == "ok" {
						out.raw(&oracle_fail_line(*v, *eb, ps, &r.keys, seed, &t, res, false, &format!("genuine-{}-cycle-where-{}-nonces-are-required", len, ps)));
					}
					out.line(
						&format!("pow verify {} {} {} {} {} {}", v.name(), eb, ps, len, keys_str(&r.keys), nat_list(&t)),
						res,
					);
				}
			}
		}
	}
	out.raw(&format!("#STAT exh count: genuine cycles of another length verified through a context of that length={}", nwl));
	stats.print(out, "exh");
}

// ---------------------------------------------------------------------------------------------
// (iii) solver-found cycles and near misses

/// all simple cycles of length `len` (as sorted edge lists); brute-force DFS over the graph of
/// all 2^eb edges. `budget` bounds the DFS steps.
fn find_cycles(v: Var, eps: &[(u64, u64)], len: usize, budget: &mut u64, max: usize) -> Vec<Vec<u64>> {
	find_cycles_x(v, eps, len, budget, max, false)
}

/// `loose`: Cuckatoo only — also let the cycle continue between two *identical* node values
/// (a real Cuckatoo cycle continues from `x` to `x ^ 1` only). Such "same-node" cycles with an
/// even number of identical pairs pass the xor filter and are refused only by the
/// `uvs[j] == uvs[i]` part of the dead-end test.
fn find_cycles_x(v: Var, eps: &[(u64, u64)], len: usize, budget: &mut u64, max: usize, loose: bool) -> Vec<Vec<u64>> {
	let mut adj: HashMap<u64, Vec<usize>> = HashMap::new(); // vertex -> slots
	for (e, (a, b)) in eps.iter().enumerate() {
		adj.entry(v.vkey(0, *a)).or_default().push(2 * e);
		adj.entry(v.vkey(1, *b)).or_default().push(2 * e + 1);
	}
	let node = |s: usize| if s % 2 == 0 { eps[s / 2].0 } else { eps[s / 2].1 };
	let key = |s: usize| v.vkey(s % 2, node(s));
	// may the cycle continue from slot a (arrived) into slot b (leave) at their common vertex?
	let cont = |a: usize, b: usize| -> bool {
		a / 2 != b / 2
			&& match v {
				Var::Cuckatoo => loose || node(a) != node(b),
				Var::Cuckarood => (a / 2) % 2 != (b / 2) % 2,
				Var::Cuckaroom => a % 2 == 1 && b % 2 == 0,
				_ => true,
			}
	};
	let mut res: Vec<Vec<u64>> = vec![];
	let mut path: Vec<usize> = vec![]; // arrival slots
	fn dfs(
		start: usize,
		cur: usize,
		len: usize,
		path: &mut Vec<usize>,
		adj: &HashMap<u64, Vec<usize>>,
		key: &dyn Fn(usize) -> u64,
		cont: &dyn Fn(usize, usize) -> bool,
		res: &mut Vec<Vec<u64>>,
		budget: &mut u64,
		max: usize,
	) {
		if *budget == 0 || res.len() >= max {
			return;
		}
		*budget -= 1;
		// cur = slot at which we arrived; leave through another slot of the same vertex
		for &b in adj[&key(cur)].iter() {
			if !cont(cur, b) {
				continue;
			}
			let e = b / 2;
			if path.len() == len {
				if b == start {
					let mut c: Vec<u64> = path.iter().map(|s| (*s / 2) as u64).collect();
					c.sort_unstable();
					c.dedup();
					if c.len() == len && !res.contains(&c) {
						res.push(c);
					}
				}
				continue;
			}
			if e <= start / 2 || path.iter().any(|s| s / 2 == e) {
				continue;
			}
			// no vertex twice
			if path.iter().any(|s| key(*s) == key(b ^ 1)) && !(path.len() + 1 == len && key(b ^ 1) == key(start)) {
				continue;
			}
			path.push(b ^ 1);
			dfs(start, b ^ 1, len, path, adj, key, cont, res, budget, max);
			path.pop();
		}
	}
	for e0 in 0..eps.len() {
		// leave edge e0 through its v end (slot 2*e0+1 is the arrival slot of the first vertex);
		// the cycle must come back into slot 2*e0
		path.clear();
		path.push(2 * e0 + 1);
		dfs(2 * e0, 2 * e0 + 1, len, &mut path, &adj, &key, &cont, &mut res, budget, max);
		if v == Var::Cuckarooz {
			// one node space: edge e0 may also be traversed the other way round
			path.clear();
			path.push(2 * e0);
			dfs(2 * e0 + 1, 2 * e0, len, &mut path, &adj, &key, &cont, &mut res, budget, max);
		}
	}
	res
}

/// every simple cycle of length 2..=maxlen (one DFS pass; each cycle once, from its smallest edge)
fn find_cycles_upto(v: Var, eps: &[(u64, u64)], maxlen: usize, budget: &mut u64) -> Vec<Vec<u64>> {
	let mut adj: HashMap<u64, Vec<usize>> = HashMap::new();
	for (e, (a, b)) in eps.iter().enumerate() {
		adj.entry(v.vkey(0, *a)).or_default().push(2 * e);
		adj.entry(v.vkey(1, *b)).or_default().push(2 * e + 1);
	}
	let node = |s: usize| if s % 2 == 0 { eps[s / 2].0 } else { eps[s / 2].1 };
	let key = |s: usize| v.vkey(s % 2, node(s));
	let cont = |a: usize, b: usize| -> bool {
		a / 2 != b / 2
			&& match v {
				Var::Cuckatoo => node(a) != node(b),
				Var::Cuckarood => (a / 2) % 2 != (b / 2) % 2,
				Var::Cuckaroom => a % 2 == 1 && b % 2 == 0,
				_ => true,
			}
	};
	let mut res: Vec<Vec<u64>> = vec![];
	let mut path: Vec<usize> = vec![];
	#[allow(clippy::too_many_arguments)]
	fn dfs(
		start: usize,
		cur: usize,
		maxlen: usize,
		path: &mut Vec<usize>,
		adj: &HashMap<u64, Vec<usize>>,
		key: &dyn Fn(usize) -> u64,
		cont: &dyn Fn(usize, usize) -> bool,
		res: &mut Vec<Vec<u64>>,
		budget: &mut u64,
	) {
		if *budget == 0 {
			return;
		}
		*budget -= 1;
		let at_start_vertex = key(cur) == key(start);
		for &b in adj[&key(cur)].iter() {
			if !cont(cur, b) {
				continue;
			}
			if b == start {
				if path.len() >= 2 {
					let mut c: Vec<u64> = path.iter().map(|s| (*s / 2) as u64).collect();
					c.sort_unstable();
					c.dedup();
					if c.len() == path.len() && !res.contains(&c) {
						res.push(c);
					}
				}
				continue;
			}
			// back on the start edge's vertex the only simple continuation is to close
			if at_start_vertex || path.len() >= maxlen {
				continue;
			}
			let e = b / 2;
			if e <= start / 2 || path.iter().any(|s| s / 2 == e) {
				continue;
			}
			if path.iter().any(|s| key(*s) == key(b ^ 1)) {
				continue;
			}
			path.push(b ^ 1);
			dfs(start, b ^ 1, maxlen, path, adj, key, cont, res, budget);
			path.pop();
		}
	}
	for e0 in 0..eps.len() {
		path.clear();
		path.push(2 * e0 + 1);
		dfs(2 * e0, 2 * e0 + 1, maxlen, &mut path, &adj, &key, &cont, &mut res, budget);
		if v == Var::Cuckarooz {
			path.clear();
			path.push(2 * e0);
			dfs(2 * e0 + 1, 2 * e0, maxlen, &mut path, &adj, &key, &cont, &mut res, budget);
		}
	}
	res
}

fn verify_line(r: &Runner, ctx_ps: usize, nonces: &[u64], what: &str, stats: &mut Stats, out: &mut Out, expect_reject: bool) {
	let res = r.verify(nonces, stats, out);
	stats.add(r.v, &format!("{}:{}", what, res));
	let edge_mask = (1u64 << r.eb) - 1;
	if ctx_ps == r.ps {
		let o = oracle(r.v, r.ps, edge_mask, &r.eps(nonces), nonces);
		if (res == "ok") != o || (expect_reject && res == "ok") {
			out.raw(&oracle_fail_line(r.v, r.eb, r.ps, &r.keys, r.seed, nonces, res, o, what));
		}
	}
	out.line(
		&format!(
			"pow verify {} {} {} {} {} {}",
			r.v.name(),
			r.eb,
			r.ps,
			ctx_ps,
			keys_str(&r.keys),
			nat_list(nonces)
		),
		res,
	);
}

fn near_misses(r: &Runner, cyc: &[u64], rng: &mut Rng, stats: &mut Stats, out: &mut Out) {
	let ps = r.ps;
	let n_edges = 1u64 << r.eb;
	verify_line(r, ps, cyc, "cycle", stats, out, false);
	// one nonce changed (to a different edge not in the proof), kept ascending
	for _ in 0..3 {
		let i = rng.below(ps as u64) as usize;
		let mut t = cyc.to_vec();
		let x = rng.below(n_edges);
		if t.contains(&x) {
			continue;
		}
		t[i] = x;
		t.sort_unstable();
		verify_line(r, ps, &t, "changed", stats, out, false);
	}
	// neighbour nonce (same siphash block, adjacent index)
	{
		let i = rng.below(ps as u64) as usize;
		let mut t = cyc.to_vec();
		let x = t[i] ^ 1;
		if !t.contains(&x) {
			t[i] = x;
			t.sort_unstable();
			verify_line(r, ps, &t, "changed", stats, out, false);
		}
	}
	// two swapped: not ascending
	{
		let i = rng.below(ps as u64 - 1) as usize;
		let j = rng.range(i as u64 + 1, ps as u64 - 1) as usize;
		let mut t = cyc.to_vec();
		t.swap(i, j);
		verify_line(r, ps, &t, "swapped", stats, out, true);
		let mut t = cyc.to_vec();
		t.reverse();
		verify_line(r, ps, &t, "swapped", stats, out, true);
		// rotation: same cycle, not ascending
		let mut t = cyc.to_vec();
		t.rotate_left(1);
		verify_line(r, ps, &t, "swapped", stats, out, true);
	}
	// duplicated nonce
	{
		let i = rng.below(ps as u64 - 1) as usize;
		let mut t = cyc.to_vec();
		t[i + 1] = t[i];
		verify_line(r, ps, &t, "duplicated", stats, out, true);
		let mut t = cyc.to_vec();
		t[i] = t[i + 1];
		verify_line(r, ps, &t, "duplicated", stats, out, true);
	}
	// out of range: same low bits, above the edge mask (sip input differs; must be refused first)
	{
		let mut t = cyc.to_vec();
		t[ps - 1] += n_edges;
		verify_line(r, ps, &t, "outofrange", stats, out, true);
		let mut t = cyc.to_vec();
		let i = rng.below(ps as u64) as usize;
		t[i] += n_edges << rng.below(8);
		verify_line(r, ps, &t, "outofrange", stats, out, true);
		let mut t = cyc.to_vec();
		t[ps - 1] = n_edges;
		verify_line(r, ps, &t, "outofrange", stats, out, true);
	}
	// wrong count
	{
		let t = cyc[..ps - 1].to_vec();
		verify_line(r, ps, &t, "wrongcount", stats, out, true);
		let mut t = cyc.to_vec();
		t.push(cyc[ps - 1] + 1);
		verify_line(r, ps, &t, "wrongcount", stats, out, true);
		verify_line(r, ps, &[], "wrongcount", stats, out, true);
		let t = cyc[..ps / 2].to_vec();
		verify_line(r, ps, &t, "wrongcount", stats, out, true);
	}
}

fn solve(out: &mut Out, rng: &mut Rng, thorough: bool) {
	let ps = 8usize;
	set_chain_for(ps);
	let mut stats = Stats::new();
	let mut shapes: HashMap<String, u64> = HashMap::new();
	let graphs = if thorough { 2500 } else { 600 };
	for v in VARS.iter() {
		let mut found = 0u64;
		for g in 0..graphs {
			let eb: u8 = match g % 4 {
				0 => 7,
				1 => 8,
				2 => 10,
				_ => rng.range(6, 12) as u8,
			};
			let seed = rng.next();
			let r = Runner::new(*v, eb, ps, ps, seed, true);
			let mut budget = 400_000u64;
			let cycles = find_cycles(*v, &r.eps_all, ps, &mut budget, 6);
			for c in cycles.iter() {
				found += 1;
				near_misses(&r, c, rng, &mut stats, out);
			}
			if *v == Var::Cuckatoo {
				let mut bs = 200_000u64;
				for t in cuckatoo_samenode(&r.eps_all, ps, &mut bs, 3).iter() {
					*shapes.entry("cuckatoo-samenode".to_string()).or_insert(0) += 1;
					verify_line(&r, ps, t, "samenode", &mut stats, out, true);
				}
			}
			// Cuckatoo: the repo's own solver on the same graph
			if *v == Var::Cuckatoo && g % 8 == 0 {
				let mut sc = CuckatooContext::new_impl(eb, ps, 4).unwrap();
				sc.set_header_nonce_impl(header(seed), None, true).unwrap();
				match catch(std::panic::AssertUnwindSafe(move || sc.find_cycles_iter(0..(1u64 << eb)))) {
					Ok(Ok(sols)) => {
						for s in sols.iter() {
							*shapes.entry("cuckatoo-own-solver".to_string()).or_insert(0) += 1;
							verify_line(&r, ps, &s.nonces, "ownsolver", &mut stats, out, false);
							if !cycles.contains(&s.nonces) && budget > 0 && cycles.len() < 6 {
								out.raw(&format!("#ORACLE-FAIL C05 cuckatoo solver found {:?} which the harness DFS did not (seed {})", s.nonces, seed));
							}
						}
					}
					Ok(Err(_)) => {}
					Err(_) => {
						out.raw(&format!("#STAT cuckatoo find_cycles panicked eb={} seed={}", eb, seed));
					}
				}
			}
			// shapes built from half-length cycles: two disjoint ones, figure-eight (sharing a vertex)
			let mut b2 = 200_000u64;
			let halves = find_cycles(*v, &r.eps_all, ps / 2, &mut b2, 8);
			for a in 0..halves.len() {
				for b in (a + 1)..halves.len() {
					let mut t: Vec<u64> = halves[a].iter().chain(halves[b].iter()).cloned().collect();
					t.sort_unstable();
					t.dedup();
					if t.len() != ps {
						continue;
					}
					let eps = r.eps(&t);
					let mut keys: Vec<u64> = vec![];
					for (x, y) in eps.iter() {
						keys.push(v.vkey(0, *x));
						keys.push(v.vkey(1, *y));
					}
					keys.sort_unstable();
					keys.dedup();
					let what = if keys.len() == ps { "twohalves" } else { "figure8" };
					*shapes.entry(what.to_string()).or_insert(0) += 1;
					verify_line(&r, ps, &t, what, &mut stats, out, true);
					// Cuckarooz compares the walk length with the context's proof_size, every other
					// variant with the proof's: a context built with proof_size 4 accepts two 4-cycles
					if *v == Var::Cuckarooz && what == "twohalves" {
						let r4 = Runner::new(*v, eb, ps, ps / 2, seed, true);
						verify_line(&r4, ps / 2, &t, "twohalves-ctx4", &mut stats, out, false);
					}
				}
			}
			// paths: a cycle of length ps+2 minus two adjacent edges … simpler: a longer cycle's prefix
			if g % 3 == 0 {
				let mut b3 = 100_000u64;
				let longer = find_cycles(*v, &r.eps_all, ps + 2, &mut b3, 2);
				for c in longer.iter() {
					// drop two edges: what remains is one or two paths
					let i = rng.below(c.len() as u64) as usize;
					let mut t = c.clone();
					t.remove(i);
					let j = rng.below(t.len() as u64) as usize;
					t.remove(j);
					*shapes.entry("path".to_string()).or_insert(0) += 1;
					verify_line(&r, ps, &t, "path", &mut stats, out, true);
				}
			}
		}
		out.raw(&format!("#STAT solve {} graphs={} cycles found by the harness DFS={}", v.name(), graphs, found));
	}
	// proof size 42 (UserTesting): cycles at small edge_bits
	let ps42 = 42usize;
	set_chain_for(ps42);
	for v in VARS.iter() {
		let mut found = 0;
		let tries = if thorough { 1200 } else { 150 };
		for _ in 0..tries {
			if found >= (if thorough { 6 } else { 1 }) {
				break;
			}
			let eb = 11u8;
			let seed = rng.next();
			let r = Runner::new(*v, eb, ps42, ps42, seed, true);
			let mut budget = 300_000u64;
			let cycles = find_cycles(*v, &r.eps_all, ps42, &mut budget, 1);
			for c in cycles.iter() {
				found += 1;
				near_misses(&r, c, rng, &mut stats, out);
			}
		}
		out.raw(&format!("#STAT solve {} proofsize=42 edge_bits=11 cycles found={}", v.name(), found));
	}
	// proof size 42, structural near misses: 42 edges that are TWO cycles of one graph — vertex-disjoint
	// (lengths a + (42 - a)) or sharing a vertex (figure-eight); right count, ascending, in range,
	// every vertex of even degree, so only the walk itself can refuse them
	for v in VARS.iter() {
		let want = if thorough { 12 } else { 3 };
		let tries = if thorough { 3000 } else { 300 };
		let mut found = 0u64;
		let mut graphs = 0u64;
		for _ in 0..tries {
			if found >= want {
				break;
			}
			graphs += 1;
			let eb = 11u8;
			let seed = rng.next();
			let r = Runner::new(*v, eb, ps42, ps42, seed, true);
			let mut by_len: Vec<(usize, Vec<Vec<u64>>)> = vec![];
			let mut b = 400_000u64;
			for c in find_cycles_upto(*v, &r.eps_all, 40, &mut b) {
				match by_len.iter_mut().find(|(l, _)| *l == c.len()) {
					Some((_, cs)) => cs.push(c),
					None => by_len.push((c.len(), vec![c])),
				}
			}
			for (la, ca) in by_len.iter() {
				for (lb, cb) in by_len.iter() {
					if la + lb != ps42 || la > lb {
						continue;
					}
					for a in ca.iter() {
						for b in cb.iter() {
							let mut t: Vec<u64> = a.iter().chain(b.iter()).cloned().collect();
							t.sort_unstable();
							t.dedup();
							if t.len() != ps42 || found >= want {
								continue;
							}
							let eps = r.eps(&t);
							let mut keys: Vec<u64> = vec![];
							for (x, y) in eps.iter() {
								keys.push(v.vkey(0, *x));
								keys.push(v.vkey(1, *y));
							}
							keys.sort_unstable();
							keys.dedup();
							let what = if keys.len() == ps42 { "twocycles42" } else { "figure8-42" };
							*shapes.entry(format!("{}:{}+{}", what, la, lb)).or_insert(0) += 1;
							found += 1;
							verify_line(&r, ps42, &t, what, &mut stats, out, true);
						}
					}
				}
			}
		}
		out.raw(&format!(
			"#STAT solve {} proofsize=42 edge_bits=11: 42-edge sets made of two cycles found={} in {} graphs",
			v.name(),
			found,
			graphs
		));
	}
	let mut sh: Vec<String> = shapes.iter().map(|(k, v)| format!("{}={}", k, v)).collect();
	sh.sort();
	out.raw(&format!("#STAT solve shapes: {}", sh.join(" ")));
	stats.print(out, "solve");
}

// ---------------------------------------------------------------------------------------------
// Proof packing, padding bits, difficulty

fn pack(out: &mut Out, rng: &mut Rng, thorough: bool) {
	use grin_core::core::hash::Hashed;
	let mut ok = 0u64;
	let mut refused = 0u64;
	let mut roundtrips = 0u64;
	for (ct, ps) in [(ChainTypes::AutomatedTesting, 8usize), (ChainTypes::Mainnet, 42usize), (ChainTypes::UserTesting, 42usize)].iter() {
		global::set_local_chain_type(*ct);
		for w in 1u8..=63 {
			for rep in 0..(if thorough { 30 } else { 4 }) {
				let mut nonces: Vec<u64> = (0..*ps)
					.map(|_| match rep % 4 {
						0 => rng.next() & ((1u64 << w) - 1),
						1 => (1u64 << w) - 1,
						2 => (1u64 << (w - 1)) | (rng.next() & ((1u64 << w) - 1)),
						_ => rng.below(3),
					})
					.collect();
				if rep % 2 == 0 {
					nonces.sort_unstable();
				}
				let p = Proof {
					edge_bits: w,
					nonces: nonces.clone(),
				};
				let pc = p.clone();
				let packed = match catch(move || pc.pack_nonces()) {
					Ok(b) => b,
					Err(_) => {
						out.line(&format!("pow pack {} {} {}", w, ps, nat_list(&nonces)), "panic");
						continue;
					}
				};
				out.line(&format!("pow pack {} {} {}", w, ps, nat_list(&nonces)), &hex(&packed));
				// serialise / deserialise through the real Writeable / Readable
				let bytes = ser::ser_vec(&p, ser::ProtocolVersion::local()).unwrap();
				if bytes[0] != w || bytes[1..] != packed[..] {
					out.raw(&format!("#ORACLE-FAIL C05 Proof::write is not edge_bits byte + packed nonces for w={} {:?}", w, nonces));
				}
				let back: Result<Proof, ser::Error> = ser::deserialize(
					&mut &bytes[..],
					ser::ProtocolVersion::local(),
					ser::DeserializationMode::default(),
				);
				match &back {
					Ok(q) => {
						ok += 1;
						out.line(&format!("pow unpack {} {} {}", w, ps, hex(&packed)), &nat_list(&q.nonces));
						if q.nonces != nonces || q.edge_bits != w {
							out.raw(&format!("#ORACLE-FAIL C05 proof does not survive serialisation: w={} {:?} -> {:?}", w, nonces, q.nonces));
						}
					}
					Err(_) => {
						out.line(&format!("pow unpack {} {} {}", w, ps, hex(&packed)), "err");
						if packed.len() >= 8 {
							out.raw(&format!("#ORACLE-FAIL C05 well-formed proof refused on read: w={} {:?}", w, nonces));
						}
					}
				}
				// the same through EVERY protocol version (write -> read -> write exact), and the reader on
				// the header-level path (a ProofOfWork: total difficulty, scaling, nonce, proof)
				for pv in [1u32, 2, 3, 1000].iter() {
					let pv = ser::ProtocolVersion(*pv);
					let b1 = match ser::ser_vec(&p, pv) {
						Ok(b) => b,
						Err(_) => continue,
					};
					if b1 != bytes {
						out.raw(&format!("#ORACLE-FAIL C05 Proof::write depends on the protocol version {}: w={} {:?}", pv.0, w, nonces));
					}
					let b1c = b1.clone();
					let r = catch(move || ser::deserialize::<Proof, _>(&mut &b1c[..], pv, ser::DeserializationMode::default()));
					match r {
						Err(_) => out.raw(&format!("#ORACLE-FAIL C05 Proof::read panics at protocol version {}: w={} {:?}", pv.0, w, nonces)),
						Ok(Ok(q)) => {
							let b2 = ser::ser_vec(&q, pv).unwrap_or_default();
							if q.nonces != nonces || q.edge_bits != w || b2 != b1 {
								out.raw(&format!("#ORACLE-FAIL C05 proof does not survive write -> read -> write at protocol version {}: w={} ps={} {:?} -> {:?} bytes {} -> {}", pv.0, w, ps, nonces, q.nonces, hex(&b1), hex(&b2)));
							}
						}
						Ok(Err(_)) => {
							if packed.len() >= 8 {
								out.raw(&format!("#ORACLE-FAIL C05 well-formed proof refused on read at protocol version {}: w={} {:?}", pv.0, w, nonces));
							}
						}
					}
					if packed.len() >= 8 {
						let mut pw = grin_core::pow::ProofOfWork::default();
						pw.total_difficulty = grin_core::pow::Difficulty::from_num(rng.next());
						pw.secondary_scaling = rng.next() as u32;
						pw.nonce = rng.next();
						pw.proof = p.clone();
						if let Ok(pb) = ser::ser_vec(&pw, pv) {
							let pbc = pb.clone();
							match catch(move || ser::deserialize::<grin_core::pow::ProofOfWork, _>(&mut &pbc[..], pv, ser::DeserializationMode::default())) {
								Ok(Ok(q)) => {
									if q != pw || ser::ser_vec(&q, pv).unwrap_or_default() != pb {
										out.raw(&format!("#ORACLE-FAIL C05 ProofOfWork does not survive write -> read -> write at protocol version {}: w={} ps={} {:?} -> {:?}", pv.0, w, ps, nonces, q.proof.nonces));
									}
								}
								_ => out.raw(&format!("#ORACLE-FAIL C05 well-formed ProofOfWork refused / panics on read at protocol version {}: w={} {:?}", pv.0, w, nonces)),
							}
						}
					}
					roundtrips += 1;
				}
				// difficulty is a function of the packed nonces only
				if packed.len() >= 8 {
					let h = p.hash();
					let scale = rng.range(1, 1 << 20);
					let d = (((scale as u128) << 64) / (std::cmp::max(1, h.to_u64()) as u128)).min(u64::MAX as u128) as u64;
					let mut pow = grin_core::pow::ProofOfWork::default();
					pow.proof = p.clone();
					let unscaled = pow.to_unscaled_difficulty().to_num();
					out.line(&format!("pow diff 1 {}", hex(&packed)), &std::cmp::max(unscaled, 1).to_string());
					out.line(&format!("pow diff {} {}", scale, hex(&packed)), &d.to_string());
				}
				// non-zero padding bits must be refused
				let total_bits = packed.len() * 8;
				let used = *ps * (w as usize);
				if total_bits > used && packed.len() >= 8 {
					let bit = used + rng.below((total_bits - used) as u64) as usize;
					let mut bad = bytes.clone();
					bad[1 + bit / 8] |= 1 << (bit % 8);
					let back: Result<Proof, ser::Error> = ser::deserialize(
						&mut &bad[..],
						ser::ProtocolVersion::local(),
						ser::DeserializationMode::default(),
					);
					out.line(
						&format!("pow unpack {} {} {}", w, ps, hex(&bad[1..])),
						&match &back {
							Ok(q) => nat_list(&q.nonces),
							Err(_) => "err".to_string(),
						},
					);
					match back {
						Ok(_) => out.raw(&format!("#ORACLE-FAIL C05 non-zero padding bit {} accepted: w={} ps={} bytes={}", bit, w, ps, hex(&bad))),
						Err(_) => refused += 1,
					}
				}
				// random byte strings of the right length
				let rb = rng.bytes(packed.len());
				let mut rbytes = vec![w];
				rbytes.extend_from_slice(&rb);
				let back: Result<Proof, String> = catch(move || {
					ser::deserialize::<Proof, _>(
						&mut &rbytes[..],
						ser::ProtocolVersion::local(),
						ser::DeserializationMode::default(),
					)
				})
				.map_err(|_| "panic".to_string())
				.and_then(|r| r.map_err(|_| "err".to_string()));
				out.line(
					&format!("pow unpack {} {} {}", w, ps, hex(&rb)),
					&match &back {
						Ok(q) => nat_list(&q.nonces),
						Err(e) => e.clone(),
					},
				);
			}
		}
	}
	// Proof::read on a byte stream: truncated (every kind of cut), exact, over-long
	let mut cut = 0u64;
	let mut cut_ok = 0u64;
	for (ct, ps) in [(ChainTypes::AutomatedTesting, 8usize), (ChainTypes::Mainnet, 42usize)].iter() {
		global::set_local_chain_type(*ct);
		for w in 1u8..=63 {
			let mut nonces: Vec<u64> = (0..*ps).map(|_| rng.next() & ((1u64 << w) - 1)).collect();
			nonces.sort_unstable();
			let p = Proof { edge_bits: w, nonces: nonces.clone() };
			let pcl = p.clone();
			let bytes = match catch(move || ser::ser_vec(&pcl, ser::ProtocolVersion::local())) {
				Ok(Ok(b)) => b,
				_ => continue,
			};
			let n = bytes.len();
			let mut streams: Vec<Vec<u8>> = vec![
				bytes.clone(),
				bytes[..n - 1].to_vec(),
				bytes[..n / 2].to_vec(),
				bytes[..1].to_vec(),
				bytes[..(1 + rng.below(n as u64 - 1) as usize)].to_vec(),
				vec![],
			];
			if n > 9 {
				streams.push(bytes[..9].to_vec());
				streams.push(bytes[..8].to_vec());
			}
			for extra in [1usize, 3, 8] {
				let mut b = bytes.clone();
				b.extend_from_slice(&rng.bytes(extra));
				streams.push(b);
			}
			for st in streams {
				let stc = st.clone();
				let r: Result<(Proof, usize), String> = catch(move || {
					let mut src = &stc[..];
					let r = ser::deserialize::<Proof, _>(
						&mut src,
						ser::ProtocolVersion::local(),
						ser::DeserializationMode::default(),
					);
					r.map(|p| (p, src.len()))
				})
				.map_err(|_| "panic".to_string())
				.and_then(|r| r.map_err(|_| "err".to_string()));
				let res = match &r {
					Ok((q, left)) => format!("{} {} {}", q.edge_bits, nat_list(&q.nonces), left),
					Err(e) => e.clone(),
				};
				cut += 1;
				let truncated = st.len() < n;
				if truncated && r.is_ok() {
					// (a packed length of less than 8 bytes is refused even when complete)
					out.raw(&format!("#ORACLE-FAIL C05 truncated proof ({} of {} bytes) read as {}: bytes={}", st.len(), n, res, hex(&st)));
				}
				if !truncated && n - 1 >= 8 {
					match &r {
						Ok((q, left)) if q.nonces == nonces && q.edge_bits == w && *left == st.len() - n => cut_ok += 1,
						_ => out.raw(&format!("#ORACLE-FAIL C05 complete proof followed by {} more bytes not read back: {} bytes={}", st.len() - n, res, hex(&st))),
					}
				}
				out.line(&format!("pow readstream {} {}", ps, hex(&st)), &res);
			}
		}
	}
	out.raw(&format!("#STAT pack: Proof::read on byte streams (complete, cut at every kind of place, over-long)={} complete ones read back={}", cut, cut_ok));
	// an edge_bits byte outside 1..=63 is refused before anything else is read
	let mut bad_eb = 0u64;
	for (ct, ps) in [(ChainTypes::AutomatedTesting, 8usize), (ChainTypes::Mainnet, 42usize)].iter() {
		global::set_local_chain_type(*ct);
		for w in [0u8, 64, 65, 66, 100, 127, 128, 129, 192, 200, 254, 255].iter() {
			for rep in 0..3 {
				// as many bytes as the largest legal size would take, or as the byte itself claims
				let n = match rep {
					0 => (63 * *ps + 7) / 8,
					1 => ((*w as usize) * *ps + 7) / 8,
					_ => 8,
				};
				let rb = if rep == 2 { vec![0u8; n] } else { rng.bytes(n) };
				let mut rbytes = vec![*w];
				rbytes.extend_from_slice(&rb);
				let back: Result<Proof, String> = catch(move || {
					ser::deserialize::<Proof, _>(
						&mut &rbytes[..],
						ser::ProtocolVersion::local(),
						ser::DeserializationMode::default(),
					)
				})
				.map_err(|_| "panic".to_string())
				.and_then(|r| r.map_err(|_| "err".to_string()));
				let res = match &back {
					Ok(q) => nat_list(&q.nonces),
					Err(e) => e.clone(),
				};
				if res != "err" {
					out.raw(&format!("#ORACLE-FAIL C05 proof with edge_bits byte {} not refused on read: {} bytes={}", w, res, hex(&rb)));
				}
				bad_eb += 1;
				out.line(&format!("pow unpack {} {} {}", w, ps, hex(&rb)), &res);
			}
		}
	}
	out.raw(&format!("#STAT pack: proofs with an edge_bits byte of 0 or 64..255 offered to Proof::read={} (all must be refused)", bad_eb));
	// malformed in-memory proofs (not producible by Proof::read): a nonce wider than edge_bits,
	// a nonce count different from global::proofsize(). pack_nonces (and so Proof::hash,
	// to_difficulty, write) can panic on these; the model has the same panic outcomes.
	let mut panics = 0u64;
	let mut nopanic = 0u64;
	for (ct, ps) in [(ChainTypes::AutomatedTesting, 8usize), (ChainTypes::Mainnet, 42usize)].iter() {
		global::set_local_chain_type(*ct);
		for w in 1u8..=63 {
			for kind in 0..4 {
				let mut nonces: Vec<u64> = (0..*ps).map(|_| rng.next() & ((1u64 << w) - 1)).collect();
				match kind {
					0 => nonces[*ps - 1] |= 1u64 << w,
					1 => {
						let i = rng.below(*ps as u64) as usize;
						nonces[i] = rng.next() | (1u64 << w);
					}
					2 => {
						for _ in 0..rng.range(1, 6) {
							nonces.push(rng.next() & ((1u64 << w) - 1));
						}
					}
					_ => nonces.truncate(rng.below(*ps as u64) as usize),
				}
				let p = Proof {
					edge_bits: w,
					nonces: nonces.clone(),
				};
				match catch(move || p.pack_nonces()) {
					Ok(b) => {
						nopanic += 1;
						out.line(&format!("pow pack {} {} {}", w, ps, nat_list(&nonces)), &hex(&b));
					}
					Err(_) => {
						panics += 1;
						out.line(&format!("pow pack {} {} {}", w, ps, nat_list(&nonces)), "panic");
					}
				}
			}
		}
	}
	out.raw(&format!(
		"#STAT pack_nonces on in-memory proofs with an over-wide nonce or a nonce count != proofsize: panicked={} returned={}",
		panics, nopanic
	));
	out.raw(&format!("#STAT pack round-trips ok={} padding-bit corruptions refused={} write-read-write round trips over protocol versions 1,2,3,1000 (Proof and ProofOfWork)={}", ok, refused, roundtrips));
}

// test vectors of /repo/core/src/pow/*.rs (#[cfg(test)] there, copied): real 42-cycles at edge_bits 19 / 29 / 31
const ROO_V1_19_KEYS: [u64; 4] = [0x23796193872092ea, 0xf1017d8a68c4b745, 0xd312bd53d2cd307b, 0x840acce5833ddc52,];
const ROO_V1_19: [u64; 42] = [0x45e9, 0x6a59, 0xf1ad, 0x10ef7, 0x129e8, 0x13e58, 0x17936, 0x19f7f, 0x208df, 0x23704, 0x24564, 0x27e64, 0x2b828, 0x2bb41, 0x2ffc0, 0x304c5, 0x31f2a, 0x347de, 0x39686, 0x3ab6c, 0x429ad, 0x45254, 0x49200, 0x4f8f8, 0x5697f, 0x57ad1, 0x5dd47, 0x607f8, 0x66199, 0x686c7, 0x6d5f3, 0x6da7a, 0x6dbdf, 0x6f6bf, 0x6ffbb, 0x7580e, 0x78594, 0x785ac, 0x78b1d, 0x7b80d, 0x7c11c, 0x7da35,];
const ROO_V2_19_KEYS: [u64; 4] = [0x6a54f2a35ab7e976, 0x68818717ff5cd30e, 0x9c14260c1bdbaf7, 0xea5b4cd5d0de3cf0,];
const ROO_V2_19: [u64; 42] = [0x2b1e, 0x67d3, 0xb041, 0xb289, 0xc6c3, 0xd31e, 0xd75c, 0x111d7, 0x145aa, 0x1712e, 0x1a3af, 0x1ecc5, 0x206b1, 0x2a55c, 0x2a9cd, 0x2b67e, 0x321d8, 0x35dde, 0x3721e, 0x37ac0, 0x39edb, 0x3b80b, 0x3fc79, 0x4148b, 0x42a48, 0x44395, 0x4bbc9, 0x4f775, 0x515c5, 0x56f97, 0x5aa10, 0x5bc1b, 0x5c56d, 0x5d552, 0x60a2e, 0x66646, 0x6c3aa, 0x70709, 0x71d13, 0x762a3, 0x79d88, 0x7e3ae,];
const ROOD_V1_19_KEYS: [u64; 4] = [0x89f81d7da5e674df, 0x7586b93105a5fd13, 0x6fbe212dd4e8c001, 0x8800c93a8431f938,];
const ROOD_V1_19: [u64; 42] = [0xa00, 0x3ffb, 0xa474, 0xdc27, 0x182e6, 0x242cc, 0x24de4, 0x270a2, 0x28356, 0x2951f, 0x2a6ae, 0x2c889, 0x355c7, 0x3863b, 0x3bd7e, 0x3cdbc, 0x3ff95, 0x430b6, 0x4ba1a, 0x4bd7e, 0x4c59f, 0x4f76d, 0x52064, 0x5378c, 0x540a3, 0x5af6b, 0x5b041, 0x5e9d3, 0x64ec7, 0x6564b, 0x66763, 0x66899, 0x66e80, 0x68e4e, 0x69133, 0x6b20a, 0x6c2d7, 0x6fd3b, 0x79a8a, 0x79e29, 0x7ae52, 0x7defe,];
const ROOD_V2_29_KEYS: [u64; 4] = [0xe2f917b2d79492ed, 0xf51088eaaa3a07a0, 0xaf4d4288d36a4fa8, 0xc8cdfd30a54e0581,];
const ROOD_V2_29: [u64; 42] = [0x1a9629, 0x1fb257, 0x5dc22a, 0xf3d0b0, 0x200c474, 0x24bd68f, 0x48ad104, 0x4a17170, 0x4ca9a41, 0x55f983f, 0x6076c91, 0x6256ffc, 0x63b60a1, 0x7fd5b16, 0x985bff8, 0xaae71f3, 0xb71f7b4, 0xb989679, 0xc09b7b8, 0xd7601da, 0xd7ab1b6, 0xef1c727, 0xf1e702b, 0xfd6d961, 0xfdf0007, 0x10248134, 0x114657f6, 0x11f52612, 0x12887251, 0x13596b4b, 0x15e8d831, 0x16b4c9e5, 0x17097420, 0x1718afca, 0x187fc40c, 0x19359788, 0x1b41d3f1, 0x1bea25a7, 0x1d28df0f, 0x1ea6c4a0, 0x1f9bf79f, 0x1fa005c6,];
const ROOM_V1_19_KEYS: [u64; 4] = [0xdb7896f799c76dab, 0x352e8bf25df7a723, 0xf0aa29cbb1150ea6, 0x3206c2759f41cbd5,];
const ROOM_V1_19: [u64; 42] = [0x0413c, 0x05121, 0x0546e, 0x1293a, 0x1dd27, 0x1e13e, 0x1e1d2, 0x22870, 0x24642, 0x24833, 0x29190, 0x2a732, 0x2ccf6, 0x302cf, 0x32d9a, 0x33700, 0x33a20, 0x351d9, 0x3554b, 0x35a70, 0x376c1, 0x398c6, 0x3f404, 0x3ff0c, 0x48b26, 0x49a03, 0x4c555, 0x4dcda, 0x4dfcd, 0x4fbb6, 0x50275, 0x584a8, 0x5da0d, 0x5dbf1, 0x6038f, 0x66540, 0x72bbd, 0x77323, 0x77424, 0x77a14, 0x77dc9, 0x7d9dc,];
const ROOM_V2_29_KEYS: [u64; 4] = [0xe4b4a751f2eac47d, 0x3115d47edfb69267, 0x87de84146d9d609e, 0x7deb20eab6d976a1,];
const ROOM_V2_29: [u64; 42] = [0x04acd28, 0x29ccf71, 0x2a5572b, 0x2f31c2c, 0x2f60c37, 0x317fe1d, 0x32f6d4c, 0x3f51227, 0x45ee1dc, 0x535eeb8, 0x5e135d5, 0x6184e3d, 0x6b1b8e0, 0x6f857a9, 0x8916a0f, 0x9beb5f8, 0xa3c8dc9, 0xa886d94, 0xaab6a57, 0xd6df8f8, 0xe4d630f, 0xe6ae422, 0xea2d658, 0xf7f369b, 0x10c465d8, 0x1130471e, 0x12049efb, 0x12f43bc5, 0x15b493a6, 0x16899354, 0x1915dfca, 0x195c3dac, 0x19b09ab6, 0x1a1a8ed7, 0x1bba748f, 0x1bdbf777, 0x1c806542, 0x1d201b53, 0x1d9e6af7, 0x1e99885e, 0x1f255834, 0x1f9c383b,];
const ROOZ_V1_19_KEYS: [u64; 4] = [0xd129f63fba4d9a85, 0x457dcb3666c5e09c, 0x045247a2e2ee75f7, 0x1a0f2e1bcb9d93ff,];
const ROOZ_V1_19: [u64; 42] = [0x33b6, 0x487b, 0x88b7, 0x10bf6, 0x15144, 0x17cb7, 0x22621, 0x2358e, 0x23775, 0x24fb3, 0x26b8a, 0x2876c, 0x2973e, 0x2f4ba, 0x30a62, 0x3a36b, 0x3ba5d, 0x3be67, 0x3ec56, 0x43141, 0x4b9c5, 0x4fa06, 0x51a5c, 0x523e5, 0x53d08, 0x57d34, 0x5c2de, 0x60bba, 0x62509, 0x64d69, 0x6803f, 0x68af4, 0x6bd52, 0x6f041, 0x6f900, 0x70051, 0x7097d, 0x735e8, 0x742c2, 0x79ae5, 0x7f64d, 0x7fd49,];
const ROOZ_V2_29_KEYS: [u64; 4] = [0x34bb4c75c929a2f5, 0x21df13263aa81235, 0x37d00939eae4be06, 0x473251cbf6941553,];
const ROOZ_V2_29: [u64; 42] = [0x49733a, 0x1d49107, 0x253d2ca, 0x5ad5e59, 0x5b671bd, 0x5dcae1c, 0x5f9a589, 0x65e9afc, 0x6a59a45, 0x7d9c6d3, 0x7df96e4, 0x8b26174, 0xa17b430, 0xa1c8c0d, 0xa8a0327, 0xabd7402, 0xacb7c77, 0xb67524f, 0xc1c15a6, 0xc7e2c26, 0xc7f5d8d, 0xcae478a, 0xdea9229, 0xe1ab49e, 0xf57c7db, 0xfb4e8c5, 0xff314aa, 0x110ccc12, 0x143e546f, 0x17007af8, 0x17140ea2, 0x173d7c5d, 0x175cd13f, 0x178b8880, 0x1801edc5, 0x18c8f56b, 0x18c8fe6d, 0x19f1a31a, 0x1bb028d1, 0x1caaa65a, 0x1cf29bc2, 0x1dbde27d,];
const TOO_V1_29: [u64; 42] = [0x48a9e2, 0x9cf043, 0x155ca30, 0x18f4783, 0x248f86c, 0x2629a64, 0x5bad752, 0x72e3569, 0x93db760, 0x97d3b37, 0x9e05670, 0xa315d5a, 0xa3571a1, 0xa48db46, 0xa7796b6, 0xac43611, 0xb64912f, 0xbb6c71e, 0xbcc8be1, 0xc38a43a, 0xd4faa99, 0xe018a66, 0xe37e49c, 0xfa975fa, 0x11786035, 0x1243b60a, 0x12892da0, 0x141b5453, 0x1483c3a0, 0x1505525e, 0x1607352c, 0x16181fe3, 0x17e3a1da, 0x180b651e, 0x1899d678, 0x1931b0bb, 0x19606448, 0x1b041655, 0x1b2c20ad, 0x1bd7a83c, 0x1c05d5b0, 0x1c0b9caa,];
const TOO_V1_31: [u64; 42] = [0x1128e07, 0xc181131, 0x110fad36, 0x1135ddee, 0x1669c7d3, 0x1931e6ea, 0x1c0005f3, 0x1dd6ecca, 0x1e29ce7e, 0x209736fc, 0x2692bf1a, 0x27b85aa9, 0x29bb7693, 0x2dc2a047, 0x2e28650a, 0x2f381195, 0x350eb3f9, 0x3beed728, 0x3e861cbc, 0x41448cc1, 0x41f08f6d, 0x42fbc48a, 0x4383ab31, 0x4389c61f, 0x4540a5ce, 0x49a17405, 0x50372ded, 0x512f0db0, 0x588b6288, 0x5a36aa46, 0x5c29e1fe, 0x6118ab16, 0x634705b5, 0x6633d190, 0x6683782f, 0x6728b6e1, 0x67adfb45, 0x68ae2306, 0x6d60f5e1, 0x78af3c4f, 0x7dde51ab, 0x7faced21,];

struct Vector {
	v: Var,
	eb: u8,
	hdr_nonce: u32,
	keys: Option<[u64; 4]>,
	sol: [u64; 42],
}
fn vectors() -> Vec<Vector> {
	vec![
		Vector { v: Var::Cuckaroo, eb: 19, hdr_nonce: 71, keys: Some(ROO_V1_19_KEYS), sol: ROO_V1_19 },
		Vector { v: Var::Cuckaroo, eb: 19, hdr_nonce: 143, keys: Some(ROO_V2_19_KEYS), sol: ROO_V2_19 },
		Vector { v: Var::Cuckarood, eb: 19, hdr_nonce: 64, keys: Some(ROOD_V1_19_KEYS), sol: ROOD_V1_19 },
		Vector { v: Var::Cuckarood, eb: 29, hdr_nonce: 15, keys: Some(ROOD_V2_29_KEYS), sol: ROOD_V2_29 },
		Vector { v: Var::Cuckaroom, eb: 19, hdr_nonce: 64, keys: Some(ROOM_V1_19_KEYS), sol: ROOM_V1_19 },
		Vector { v: Var::Cuckaroom, eb: 29, hdr_nonce: 15, keys: Some(ROOM_V2_29_KEYS), sol: ROOM_V2_29 },
		Vector { v: Var::Cuckarooz, eb: 19, hdr_nonce: 71, keys: Some(ROOZ_V1_19_KEYS), sol: ROOZ_V1_19 },
		Vector { v: Var::Cuckarooz, eb: 29, hdr_nonce: 15, keys: Some(ROOZ_V2_29_KEYS), sol: ROOZ_V2_29 },
		Vector { v: Var::Cuckatoo, eb: 29, hdr_nonce: 20, keys: None, sol: TOO_V1_29 },
		Vector { v: Var::Cuckatoo, eb: 31, hdr_nonce: 99, keys: None, sol: TOO_V1_31 },
	]
}

/// "empty header" of the reference miner: all-zero bytes; its length differs between the vectors
/// (0 = the vector's keys are not those of any all-zero header of 4..400 bytes with its nonce)
fn vector_hdr_lens(vs: &[Vector]) -> Vec<usize> {
	let mut hdr_len: Vec<usize> = vec![];
	for x in vs.iter() {
		let mut found = 80usize;
		if let Some(kk) = x.keys {
			found = 0;
			for len in 4..=400usize {
				if real_keys(&vec![0u8; len], Some(x.hdr_nonce)) == kk {
					found = len;
					break;
				}
			}
		}
		hdr_len.push(found);
	}
	hdr_len
}

/// (iv) the repo's real-size vectors through the public API, and `create_pow_context` selection
fn select(out: &mut Out, rng: &mut Rng, _thorough: bool) {
	global::set_local_chain_type(ChainTypes::Mainnet);
	let vs = vectors();
	let mut usable = 0;
	let hdr_len = vector_hdr_lens(&vs);
	for (xi, x) in vs.iter().enumerate() {
		if hdr_len[xi] == 0 {
			out.raw(&format!("#STAT select: keys of vector {} eb {} are not those of an all-zero header with nonce {}", x.v.name(), x.eb, x.hdr_nonce));
			continue;
		}
		let hdr = vec![0u8; hdr_len[xi]];
		let k = real_keys(&hdr, Some(x.hdr_nonce));
		usable += 1;
		// the vector itself and near misses, real parameters (proof size 42, edge_bits 19/29/31)
		let mut ctx = x.v.ctx(x.eb, 42);
		ctx.set_header_nonce(hdr.clone(), Some(x.hdr_nonce), false).unwrap();
		let mut cases: Vec<Vec<u64>> = vec![x.sol.to_vec()];
		for _ in 0..6 {
			let mut t = x.sol.to_vec();
			let i = rng.below(42) as usize;
			match rng.below(4) {
				0 => t[i] ^= 1,
				1 => t[i] = rng.below(1u64 << x.eb),
				2 => t.swap(i, (i + 1) % 42),
				_ => t[i] += 1u64 << x.eb,
			}
			if rng.chance(1, 2) {
				t.sort_unstable();
			}
			cases.push(t);
		}
		for t in cases.iter() {
			let r = ctx.verify(&Proof { edge_bits: x.eb, nonces: t.clone() });
			out.line(
				&format!("pow verify {} {} 42 42 {} {}", x.v.name(), x.eb, keys_str(&k), nat_list(t)),
				err_name(&r),
			);
		}
	}
	out.raw(&format!("#STAT select: repo vectors usable through the public API: {} of {}", usable, vs.len()));
	// solver-found 42-cycles at edge_bits 11 for every variant (create_pow_context accepts any
	// edge_bits <= 29 on mainnet / testnet)
	global::set_local_chain_type(ChainTypes::Mainnet);
	let mut small: Vec<(Var, u64, Vec<u64>)> = vec![];
	for v in VARS.iter() {
		let mut tries = 0;
		while tries < 6000 {
			tries += 1;
			let seed = rng.next();
			let keys = real_keys(&header(seed), None);
			let eps: Vec<(u64, u64)> = (0..(1u64 << 11)).map(|n| v.ep(&keys, 11, n)).collect();
			let mut budget = 300_000u64;
			if let Some(c) = find_cycles(*v, &eps, 42, &mut budget, 1).into_iter().next() {
				let mut ctx = v.ctx(11, 42);
				ctx.set_header_nonce(header(seed), None, false).unwrap();
				let r = ctx.verify(&Proof { edge_bits: 11, nonces: c.clone() });
				out.line(
					&format!("pow verify {} 11 42 42 {} {}", v.name(), keys_str(&keys), nat_list(&c)),
					err_name(&r),
				);
				if r.is_ok() {
					small.push((*v, seed, c));
					break;
				}
			}
		}
		out.raw(&format!("#STAT select: {} 42-cycle at edge_bits 11 after {} graphs: {}", v.name(), tries, small.iter().any(|x| x.0 == *v)));
	}
	// create_pow_context: which verifier does (chain type, height, edge_bits) select?
	// observed = the set of vectors (by variant name) the returned context accepts
	let year: u64 = 524_160;
	let hf = year / 2;
	let mut heights: Vec<u64> = vec![0, 1, hf - 1, hf, 2 * hf - 1, 2 * hf, 3 * hf - 1, 3 * hf, 4 * hf - 1, 4 * hf, 5 * hf, 10 * hf];
	for t in [185_040u64, 298_080, 552_960, 642_240].iter() {
		heights.push(*t - 1);
		heights.push(*t);
	}
	for _ in 0..12 {
		heights.push(rng.below(6 * hf));
	}
	for (ct, cname) in [
		(ChainTypes::Mainnet, "mainnet"),
		(ChainTypes::Testnet, "testnet"),
		(ChainTypes::UserTesting, "usertesting"),
	]
	.iter()
	{
		global::set_local_chain_type(*ct);
		for h in heights.iter() {
			for eb in [11u8, 19, 29, 31].iter() {
				let mut avail: Vec<&str> = vec![];
				for (xi, x) in vs.iter().enumerate() {
					if x.eb == *eb && hdr_len[xi] > 0 && !avail.contains(&x.v.name()) {
						avail.push(x.v.name());
					}
				}
				if *eb == 11 {
					for x in small.iter() {
						avail.push(x.0.name());
					}
				}
				let res = match global::create_pow_context::<u64>(*h, *eb, 42, 1) {
					Err(_) => "err".to_string(),
					Ok(mut ctx) => {
						let mut acc: Vec<&str> = vec![];
						for (xi, x) in vs.iter().enumerate().filter(|(xi, x)| x.eb == *eb && hdr_len[*xi] > 0) {
							ctx.set_header_nonce(vec![0u8; hdr_len[xi]], Some(x.hdr_nonce), false).unwrap();
							if ctx.verify(&Proof { edge_bits: *eb, nonces: x.sol.to_vec() }).is_ok() {
								if !acc.contains(&x.v.name()) {
									acc.push(x.v.name());
								}
							}
						}
						if *eb == 11 {
							for x in small.iter() {
								ctx.set_header_nonce(header(x.1), None, false).unwrap();
								if ctx.verify(&Proof { edge_bits: 11, nonces: x.2.clone() }).is_ok() {
									acc.push(x.0.name());
								}
							}
						}
						format!("[{}]", acc.join(","))
					}
				};
				out.line(&format!("pow select {} {} {} [{}]", cname, h, eb, avail.join(",")), &res);
			}
		}
	}
}

// ---------------------------------------------------------------------------------------------
// (v) context histories: ONE context object through solve / verify / re-seed sequences.
// Verification must depend on (header, edge_bits, proof) only, not on what the object did before.

/// the context object under test: Cuckatoo concretely (its keys are observable on the very object)
enum CtxObj {
	Too(CuckatooContext),
	Dyn(Box<dyn PoWContext>),
}
impl CtxObj {
	fn new(v: Var, eb: u8, ps: usize) -> CtxObj {
		match v {
			Var::Cuckatoo => CtxObj::Too(CuckatooContext::new_impl(eb, ps, 4).unwrap()),
			_ => CtxObj::Dyn(v.ctx(eb, ps)),
		}
	}
	fn as_dyn(&mut self) -> &mut dyn PoWContext {
		match self {
			CtxObj::Too(c) => c,
			CtxObj::Dyn(b) => b.as_mut(),
		}
	}
	fn keys(&self) -> Option<[u64; 4]> {
		match self {
			CtxObj::Too(c) => {
				let mut k = [0u64; 4];
				for i in 0..4 {
					k[i] = u64::from_str_radix(&c.sipkey_hex(i).unwrap(), 16).unwrap();
				}
				Some(k)
			}
			_ => None,
		}
	}
}

struct Hist {
	v: Var,
	eb: u8,
	ps: usize,
	obj: CtxObj,
	/// header / nonce of the last `set_header_nonce`
	cur: Option<(Vec<u8>, Option<u32>)>,
	cur_keys: [u64; 4],
	/// tag of the current state (for the line and the statistics)
	state: String,
	/// the calls made so far on this object
	log: Vec<String>,
	/// may the Cuckatoo solver be called (big graphs: `graph.reset()` would allocate gigabytes)
	solver_ok: bool,
}

struct HistStats {
	objects: u64,
	seeds: u64,
	finds: HashMap<String, u64>,
	verdicts: HashMap<(String, String), (u64, u64)>, // (state, what) -> (accepted, refused)
	fresh_checked: u64,
	fresh_differs: u64,
	skipped_hang: u64,
	sizes: HashMap<String, u64>,
}

fn hdr_short(h: &[u8]) -> String {
	if h.len() == 80 && h[8..].iter().all(|b| *b == 0) {
		format!("seed{}", u64::from_le_bytes([h[0], h[1], h[2], h[3], h[4], h[5], h[6], h[7]]))
	} else {
		format!("hdr({} bytes)", h.len())
	}
}

impl Hist {
	fn new(v: Var, eb: u8, ps: usize, solver_ok: bool, out: &mut Out, hs: &mut HistStats) -> Hist {
		out.line(&format!("pow hnew {} {} {} {}", v.name(), eb, ps, ps), "ok");
		hs.objects += 1;
		*hs.sizes.entry(format!("{}/eb{}/ps{}", v.name(), eb, ps)).or_insert(0) += 1;
		Hist {
			v,
			eb,
			ps,
			obj: CtxObj::new(v, eb, ps),
			cur: None,
			cur_keys: [0; 4],
			state: "unseeded".to_string(),
			log: vec![format!("new {} eb={} ps={}", v.name(), eb, ps)],
			solver_ok,
		}
	}
	fn seed(&mut self, hdr: &[u8], nonce: Option<u32>, solve: bool, state: &str, out: &mut Out, hs: &mut HistStats) {
		// never let Cuckatoo build a solver graph for a real-size edge_bits
		let solve = solve && (self.solver_ok || self.v != Var::Cuckatoo);
		self.obj.as_dyn().set_header_nonce(hdr.to_vec(), nonce, solve).unwrap();
		self.cur = Some((hdr.to_vec(), nonce));
		self.cur_keys = real_keys(hdr, nonce);
		self.state = state.to_string();
		self.log.push(format!("set_header_nonce({},{:?},solve={})", hdr_short(hdr), nonce, solve));
		hs.seeds += 1;
		let observed = match self.obj.keys() {
			Some(k) => keys_str(&k),
			None => "-".to_string(),
		};
		out.line(
			&format!(
				"pow hseed {} {} {}",
				hex(hdr),
				nonce.map(|n| n.to_string()).unwrap_or("none".to_string()),
				solve
			),
			&observed,
		);
	}
	/// `find_cycles` through the trait; returns the solutions
	fn find(&mut self, out: &mut Out, hs: &mut HistStats) -> Vec<Vec<u64>> {
		let obj = std::panic::AssertUnwindSafe(&mut self.obj);
		let r = catch(move || {
			let obj = obj;
			obj.0.as_dyn().find_cycles()
		});
		let (txt, sols, kind) = match r {
			Ok(Ok(sols)) => {
				let ss: Vec<Vec<u64>> = sols.iter().map(|p| p.nonces.clone()).collect();
				let t: Vec<String> = ss.iter().map(|s| nat_list(s)).collect();
				(t.join(";"), ss, "solutions")
			}
			Ok(Err(Error::NoSolution)) => ("nosol".to_string(), vec![], "nosol"),
			Ok(Err(e)) => {
				*hs.finds.entry(format!("{}:err({:?})", self.v.name(), e).replace(' ', "_")).or_insert(0) += 1;
				("err".to_string(), vec![], "err")
			}
			Err(_) => ("panic".to_string(), vec![], "panic"),
		};
		*hs.finds.entry(format!("{}:{}", self.v.name(), kind)).or_insert(0) += 1;
		self.log.push(format!("find_cycles()={}", if kind == "solutions" { format!("{} solutions", sols.len()) } else { kind.to_string() }));
		self.state = format!("{}+f", self.state);
		out.line("pow hfind", &txt);
		sols
	}
	/// one `verify` call on the object, with the three oracles
	fn verify(&mut self, what: &str, nonces: &[u64], out: &mut Out, hs: &mut HistStats) -> &'static str {
		let edge_mask = (1u64 << self.eb) - 1;
		let eps: Vec<(u64, u64)> = nonces.iter().map(|n| self.v.ep(&self.cur_keys, self.eb, *n)).collect();
		if self.v == Var::Cuckarood && rood_hangs(self.ps, edge_mask, &eps, nonces) {
			// the repaired endless walk (regression probes run in child processes in `exh` / `solve`)
			hs.skipped_hang += 1;
			return "skipped";
		}
		let p = Proof {
			edge_bits: self.eb,
			nonces: nonces.to_vec(),
		};
		let tag = format!("{}:{}", self.state, what);
		let res = {
			let obj = std::panic::AssertUnwindSafe(&mut self.obj);
			let pp = p.clone();
			match catch(move || {
				let obj = obj;
				let r = obj.0.as_dyn().verify(&pp);
				err_name(&r)
			}) {
				Ok(s) => s,
				Err(_) => "panic",
			}
		};
		// pipeline self-test (never set by ./check): pretend a verify-only re-seed kept the old keys
		let res = if std::env::var("VERIF_POW_SELFTEST_HIST").is_ok() && self.state == "H2v" && what == "P" { "ok" } else { res };
		// the history keeps the state-changing calls in full and counts the verify calls between them
		match self.log.last_mut() {
			Some(l) if l.starts_with("verify x") => {
				let n: u32 = l[8..].parse().unwrap_or(0);
				*l = format!("verify x{}", n + 1);
			}
			_ => self.log.push("verify x1".to_string()),
		}
		{
			// pooled for the statistics: walk states by the header they hold, repeated finds, near misses
			let mut sc = self.state.clone();
			while sc.contains("+f+f") {
				sc = sc.replace("+f+f", "+f");
			}
			if sc.starts_with('W') {
				sc = format!("walk:{}{}{}", &sc[1..3], if sc.contains('n') { "+nonce" } else { "" }, if sc.ends_with("+f") { "+f" } else { "" });
			}
			let wc = if what.starts_with("nm") { "near-miss" } else { what };
			let e = hs.verdicts.entry((sc, wc.to_string())).or_insert((0, 0));
			if res == "ok" {
				e.0 += 1;
			} else {
				e.1 += 1;
			}
		}
		// oracle 1: a FRESH context created for this (header, edge_bits), seeded for verification
		let fresh = {
			let mut f = self.v.ctx(self.eb, self.ps);
			if let Some((h, n)) = &self.cur {
				f.set_header_nonce(h.clone(), *n, false).unwrap();
			}
			let pp = p.clone();
			let f = std::panic::AssertUnwindSafe(f);
			match catch(move || {
				let r = f.verify(&pp);
				err_name(&r)
			}) {
				Ok(s) => s,
				Err(_) => "panic",
			}
		};
		hs.fresh_checked += 1;
		if fresh != res {
			hs.fresh_differs += 1;
			out.raw(&format!(
				"#ORACLE-FAIL C05 verification depends on the history of the context object: variant={} edge_bits={} proofsize={} nonces={} this object says {} but a fresh context for the same header says {}; history: {}",
				self.v.name(), self.eb, self.ps, nat_list(nonces), res, fresh, self.log.join(" | ")
			));
		}
		// oracle 2: is it a cycle of the CURRENT header's graph
		let o = oracle(self.v, self.ps, edge_mask, &eps, nonces);
		if (res == "ok") != o {
			let seed_txt = self.cur.as_ref().map(|(h, n)| format!("{}/{:?}", hdr_short(h), n)).unwrap_or("unseeded".to_string());
			out.raw(&format!(
				"#ORACLE-FAIL C05 verifier {} after a context history: variant={} edge_bits={} proofsize={} keys=[{}] header={} nonces={} implementation={} oracle={} case={} history: {}",
				if res == "ok" { "accepts a non-cycle" } else { "rejects a cycle" },
				self.v.name(), self.eb, self.ps, keys_str(&self.cur_keys), seed_txt, nat_list(nonces), res,
				if o { "accept" } else { "reject" }, tag, self.log.join(" | ")
			));
		}
		out.line(&format!("pow hverify {} {}", tag, nat_list(nonces)), res);
		res
	}
}

/// `seed_with_cycle`, keeping only cycles the harness oracle confirms (the DFS lets a walk pass
/// through its start vertex midway, so a few of its results are figure-eights)
fn seed_with_true_cycle(v: Var, eb: u8, ps: usize, rng: &mut Rng, tries: u32) -> Option<(u64, Vec<u64>)> {
	for _ in 0..8 {
		let (s, c) = seed_with_cycle(v, eb, ps, rng, tries)?;
		let k = real_keys(&header(s), None);
		let eps: Vec<(u64, u64)> = c.iter().map(|n| v.ep(&k, eb, *n)).collect();
		if oracle(v, ps, (1u64 << eb) - 1, &eps, &c) {
			return Some((s, c));
		}
	}
	None
}

/// near misses of a cycle (label, nonces)
fn nm_list(cyc: &[u64], eb: u8, rng: &mut Rng) -> Vec<(&'static str, Vec<u64>)> {
	let ps = cyc.len();
	let n_edges = 1u64 << eb;
	let mut r: Vec<(&'static str, Vec<u64>)> = vec![];
	for _ in 0..2 {
		let i = rng.below(ps as u64) as usize;
		let x = rng.below(n_edges);
		if !cyc.contains(&x) {
			let mut t = cyc.to_vec();
			t[i] = x;
			t.sort_unstable();
			r.push(("nm-changed", t));
		}
	}
	{
		let i = rng.below(ps as u64) as usize;
		let x = cyc[i] ^ 1;
		if !cyc.contains(&x) {
			let mut t = cyc.to_vec();
			t[i] = x;
			t.sort_unstable();
			r.push(("nm-changed", t));
		}
	}
	{
		let i = rng.below(ps as u64 - 1) as usize;
		let mut t = cyc.to_vec();
		t.swap(i, i + 1);
		r.push(("nm-swapped", t));
		let mut t = cyc.to_vec();
		t[i + 1] = t[i];
		r.push(("nm-duplicated", t));
		let mut t = cyc.to_vec();
		t[ps - 1] += n_edges;
		r.push(("nm-outofrange", t));
		r.push(("nm-wrongcount", cyc[..ps - 1].to_vec()));
	}
	r
}

fn hist(out: &mut Out, rng: &mut Rng, thorough: bool) {
	let mut hs = HistStats {
		objects: 0,
		seeds: 0,
		finds: HashMap::new(),
		verdicts: HashMap::new(),
		fresh_checked: 0,
		fresh_differs: 0,
		skipped_hang: 0,
		sizes: HashMap::new(),
	};
	let mut p_is_cycle_of_h2 = 0u64;
	let mut solver_missing = 0u64;
	// (a) solver-found cycles, proof size 8 (AutomatedTesting) at edge_bits 6..10 and 42
	// (UserTesting) at edge_bits 11
	for (ps, ebs, objects) in [
		(8usize, vec![6u8, 7, 8, 9, 10], if thorough { 160 } else { 36 }),
		(42usize, vec![11u8], if thorough { 4 } else { 1 }),
	]
	.iter()
	{
		set_chain_for(*ps);
		for v in VARS.iter() {
			for oi in 0..*objects {
				let eb = ebs[oi % ebs.len()];
				let tries = if *ps == 8 { 20000 } else { 400 };
				let (s1, p) = match seed_with_true_cycle(*v, eb, *ps, rng, tries) {
					Some(x) => x,
					None => continue,
				};
				// H2: a graph with its own cycle Q (half of the objects) or any graph
				let (s2, q) = if oi % 2 == 0 && *ps == 8 {
					match seed_with_true_cycle(*v, eb, *ps, rng, tries) {
						Some((s, c)) => (s, Some(c)),
						None => (rng.next(), None),
					}
				} else {
					(rng.next(), None)
				};
				let (h1, h2) = (header(s1), header(s2));
				let zero = vec![0u64; *ps];
				let mut h = Hist::new(*v, eb, *ps, true, out, &mut hs);
				let all = |h: &mut Hist, rng: &mut Rng, with_nm: bool, out: &mut Out, hs: &mut HistStats| {
					h.verify("P", &p, out, hs);
					if let Some(q) = &q {
						h.verify("Q", q, out, hs);
					}
					h.verify("zero", &zero, out, hs);
					if with_nm {
						for (l, t) in nm_list(&p, eb, rng) {
							h.verify(l, &t, out, hs);
						}
						if let Some(q) = &q {
							for (l, t) in nm_list(q, eb, rng).into_iter().take(3) {
								h.verify(if l == "nm-changed" { "nmQ-changed" } else { "nmQ-other" }, &t, out, hs);
							}
						}
					}
				};
				// never seeded: keys [0; 4]
				all(&mut h, rng, false, out, &mut hs);
				// solve H1: between set_header_nonce(solve = true) and find_cycles the scratch proof
				// (all zero) must be refused and P is already a cycle of the graph
				h.seed(&h1, None, true, "H1s", out, &mut hs);
				all(&mut h, rng, true, out, &mut hs);
				let sols = h.find(out, &mut hs);
				if *v == Var::Cuckatoo && !sols.contains(&p) {
					solver_missing += 1;
					if solver_missing <= 3 {
						out.raw(&format!(
							"#STAT hist observation (solver, not verification): CuckatooContext::find_cycles did not report the genuine {}-cycle {} of header seed{} edge_bits={} ({})",
							ps, nat_list(&p), s1, eb, h.log.last().unwrap()
						));
					}
				}
				for s in sols.iter() {
					h.verify("sol", s, out, &mut hs);
				}
				all(&mut h, rng, true, out, &mut hs);
				// re-seed the SAME object with H2 for verification only
				h.seed(&h2, None, false, "H2v", out, &mut hs);
				{
					let k2 = real_keys(&h2, None);
					let eps: Vec<(u64, u64)> = p.iter().map(|n| v.ep(&k2, eb, *n)).collect();
					if oracle(*v, *ps, (1u64 << eb) - 1, &eps, &p) {
						p_is_cycle_of_h2 += 1;
					}
				}
				for s in sols.iter() {
					h.verify("sol-of-H1", s, out, &mut hs);
				}
				all(&mut h, rng, true, out, &mut hs);
				// re-seed with H2 for solving, verify before and after the solver ran
				h.seed(&h2, None, true, "H2s", out, &mut hs);
				all(&mut h, rng, false, out, &mut hs);
				let sols2 = h.find(out, &mut hs);
				for s in sols2.iter() {
					h.verify("sol", s, out, &mut hs);
				}
				all(&mut h, rng, true, out, &mut hs);
				// back to H1, verification only: P is accepted again, the solutions of H2 are not
				h.seed(&h1, None, false, "H1v", out, &mut hs);
				for s in sols2.iter() {
					h.verify("sol-of-H2", s, out, &mut hs);
				}
				all(&mut h, rng, true, out, &mut hs);
				// same header bytes with a trailing nonce: another graph
				h.seed(&h1, Some(rng.next() as u32), false, "H1n", out, &mut hs);
				all(&mut h, rng, false, out, &mut hs);
				// find_cycles on an object seeded for verification only (no graph was set up)
				if oi % 4 == 1 {
					h.find(out, &mut hs);
					all(&mut h, rng, false, out, &mut hs);
				}
				// a random walk of further calls
				let mut walk_sols: Vec<Vec<u64>> = vec![];
				for step in 0..(if thorough { 16 } else { 10 }) {
					match rng.below(10) {
						0..=3 => {
							let which = rng.below(3);
							let hd = match which {
								0 => h1.clone(),
								1 => h2.clone(),
								_ => header(rng.next()),
							};
							let solve = rng.chance(1, 2);
							let nonce = if rng.chance(1, 5) { Some(rng.next() as u32) } else { None };
							let st = format!(
								"W{}{}{}",
								["H1", "H2", "H3"][which as usize],
								if solve { "s" } else { "v" },
								if nonce.is_some() { "n" } else { "" }
							);
							h.seed(&hd, nonce, solve, &st, out, &mut hs);
						}
						4 => {
							// the solver, also twice in a row / without a preceding solve seeding
							walk_sols = h.find(out, &mut hs);
						}
						_ => {}
					}
					let _ = step;
					match rng.below(5) {
						0 => {
							h.verify("P", &p, out, &mut hs);
						}
						1 => {
							if let Some(q) = &q {
								h.verify("Q", q, out, &mut hs);
							} else {
								h.verify("zero", &zero, out, &mut hs);
							}
						}
						2 => {
							for s in walk_sols.iter().take(2) {
								h.verify("sol-earlier", s, out, &mut hs);
							}
							h.verify("P", &p, out, &mut hs);
						}
						_ => {
							let nm = nm_list(&p, eb, rng);
							let (l, t) = &nm[rng.below(nm.len() as u64) as usize];
							h.verify(l, t, out, &mut hs);
							h.verify("P", &p, out, &mut hs);
						}
					}
				}
			}
		}
	}
	// (b) the repo's real-size 42-cycles (edge_bits 19 / 29 / 31): verify-only re-seeding of one
	// object between the vector's header nonce and other nonces (the Cuckatoo solver is never set up
	// at these sizes; the other four contexts ignore `solve`)
	set_chain_for(42);
	let vs = vectors();
	let lens = vector_hdr_lens(&vs);
	for (xi, x) in vs.iter().enumerate() {
		if lens[xi] == 0 {
			continue;
		}
		let hdr = vec![0u8; lens[xi]];
		let sol = x.sol.to_vec();
		let zero = vec![0u64; 42];
		let mut h = Hist::new(x.v, x.eb, 42, false, out, &mut hs);
		// a second vector of the same variant and edge_bits, if the repo has one
		let other = vs.iter().enumerate().find(|(yi, y)| *yi != xi && y.v == x.v && y.eb == x.eb && lens[*yi] == lens[xi]);
		let both = |h: &mut Hist, rng: &mut Rng, out: &mut Out, hs: &mut HistStats| {
			h.verify("P", &sol, out, hs);
			if let Some((_, y)) = other {
				h.verify("Q", &y.sol.to_vec(), out, hs);
			}
			h.verify("zero", &zero, out, hs);
			let nm = nm_list(&sol, x.eb, rng);
			for (l, t) in nm.into_iter().take(4) {
				h.verify(l, &t, out, hs);
			}
		};
		both(&mut h, rng, out, &mut hs);
		h.seed(&hdr, Some(x.hdr_nonce), false, "H1v", out, &mut hs);
		both(&mut h, rng, out, &mut hs);
		let n2 = other.map(|(_, y)| y.hdr_nonce).unwrap_or(x.hdr_nonce + 1);
		h.seed(&hdr, Some(n2), false, "H2v", out, &mut hs);
		both(&mut h, rng, out, &mut hs);
		h.seed(&hdr, Some(n2), true, "H2s", out, &mut hs);
		both(&mut h, rng, out, &mut hs);
		if x.v != Var::Cuckatoo {
			h.find(out, &mut hs); // unimplemented!() - must leave the object usable
			both(&mut h, rng, out, &mut hs);
		}
		h.seed(&hdr, None, false, "H1n", out, &mut hs);
		both(&mut h, rng, out, &mut hs);
		h.seed(&hdr, Some(x.hdr_nonce), true, "H1s", out, &mut hs);
		both(&mut h, rng, out, &mut hs);
	}
	// statistics
	out.raw(&format!(
		"#STAT hist context objects={} set_header_nonce calls={} verify calls compared with a fresh context={} (differing: {}) cuckarood inputs skipped (pre-repair endless walk)={}",
		hs.objects, hs.seeds, hs.fresh_checked, hs.fresh_differs, hs.skipped_hang
	));
	let mut f: Vec<String> = hs.finds.iter().map(|(k, v)| format!("{}={}", k, v)).collect();
	f.sort();
	out.raw(&format!("#STAT hist find_cycles calls: {}", f.join(" ")));
	out.raw(&format!(
		"#STAT hist P (cycle of H1) that happens to be a cycle of H2 too={} cuckatoo solver runs that did not report the DFS cycle P={}",
		p_is_cycle_of_h2, solver_missing
	));
	let mut sz: Vec<String> = hs.sizes.iter().map(|(k, v)| format!("{}={}", k, v)).collect();
	sz.sort();
	out.raw(&format!("#STAT hist objects by variant/edge_bits/proofsize: {}", sz.join(" ")));
	// verdicts by state and proof kind: accepted/refused
	let mut by: HashMap<String, Vec<String>> = HashMap::new();
	let mut keys: Vec<&(String, String)> = hs.verdicts.keys().collect();
	keys.sort();
	for k in keys {
		let (a, r) = hs.verdicts[k];
		by.entry(k.0.clone()).or_default().push(format!("{} {}/{}", k.1, a, r));
	}
	let mut states: Vec<&String> = by.keys().collect();
	states.sort();
	for st in states {
		out.raw(&format!("#STAT hist state {} (accepted/refused): {}", st, by[st].join(", ")));
	}
}

// ---------------------------------------------------------------------------------------------
// (vi) difficulty over the full parameter space

fn bits_of(x: u64) -> u32 {
	64 - x.leading_zeros()
}

/// independent check of `d = max(1, min(floor(scale * 2^64 / max(1,h)), u64::MAX))` by
/// multiplication (no division): `q*H <= N < (q+1)*H`
fn diff_ok(scale: u64, h: u64, d: u64) -> bool {
	let n: u128 = (scale as u128) << 64;
	let hh: u128 = std::cmp::max(1, h) as u128;
	if scale == 0 {
		return d == 1;
	}
	// scale >= 1 and H < 2^64: the quotient is >= 1, so from_num changes nothing
	if d == u64::MAX {
		(d as u128) * hh <= n
	} else {
		(d as u128) * hh <= n && n < (d as u128 + 1) * hh
	}
}

fn dif(out: &mut Out, rng: &mut Rng, thorough: bool) {
	use grin_core::consensus::{graph_weight, WEEK_HEIGHT, YEAR_HEIGHT};
	use grin_core::core::hash::Hashed;
	use grin_core::pow::{Difficulty, ProofOfWork};
	let chains = [
		(ChainTypes::AutomatedTesting, "automatedtesting", 8usize),
		(ChainTypes::UserTesting, "usertesting", 42usize),
		(ChainTypes::Testnet, "testnet", 42usize),
		(ChainTypes::Mainnet, "mainnet", 42usize),
	];
	// heights across the hard-fork eras and the C31 phase-out (one bit of weight per week)
	let hf = YEAR_HEIGHT / 2;
	let mut heights: Vec<u64> = vec![0, 1, hf - 1, hf, 3 * hf, 4 * hf - 1, 4 * hf, 5 * hf, 2 * YEAR_HEIGHT + 30 * WEEK_HEIGHT, 3 * YEAR_HEIGHT, 4 * YEAR_HEIGHT];
	for k in 0..=33u64 {
		heights.push(YEAR_HEIGHT + k * WEEK_HEIGHT - 1);
		heights.push(YEAR_HEIGHT + k * WEEK_HEIGHT);
	}
	for t in [185_040u64, 298_080, 552_960, 642_240].iter() {
		heights.push(*t - 1);
		heights.push(*t);
	}
	heights.extend_from_slice(&[1 << 32, 1 << 63, u64::MAX - 1, u64::MAX]);
	let few: Vec<u64> = vec![0, YEAR_HEIGHT - 1, YEAR_HEIGHT, YEAR_HEIGHT + 5 * WEEK_HEIGHT, 4 * YEAR_HEIGHT, u64::MAX];
	// (a) graph_weight itself: every chain type, EVERY edge_bits : u8 (below base_edge_bits the u8
	// subtraction wraps, from 64 + base_edge_bits on the shift amount does, as compiled in release)
	let mut gw_lines = 0u64;
	let mut gw_bits: HashMap<u32, u64> = HashMap::new();
	for (ct, cname, _) in chains.iter() {
		global::set_local_chain_type(*ct);
		for eb in 0u8..=255 {
			let hl = if eb == 31 { &heights } else { &few };
			for h in hl.iter() {
				let (hh, e) = (*h, eb);
				let w = match catch(move || graph_weight(hh, e)) {
					Ok(w) => {
						*gw_bits.entry(bits_of(w)).or_insert(0) += 1;
						w.to_string()
					}
					Err(_) => "panic".to_string(),
				};
				out.line(&format!("pow gw {} {} {}", cname, h, eb), &w);
				gw_lines += 1;
			}
		}
	}
	let mut gb: Vec<(u32, u64)> = gw_bits.into_iter().collect();
	gb.sort();
	out.raw(&format!(
		"#STAT dif graph_weight lines={} bit length of the weight -> count: {}",
		gw_lines,
		gb.iter().map(|(b, c)| format!("{}b={}", b, c)).collect::<Vec<_>>().join(" ")
	));
	// (b) to_difficulty
	let cases = if thorough { 250_000 } else { 40_000 };
	let kcand = 128;
	let secs: [u32; 10] = [0, 1, 2, 3, 255, 1 << 16, 1 << 31, u32::MAX - 1, u32::MAX, 1856];
	let mut st_chain: HashMap<&str, u64> = HashMap::new();
	let mut st_eb: HashMap<&str, u64> = HashMap::new();
	let mut st_scale: HashMap<&str, u64> = HashMap::new();
	let mut st_res: HashMap<&str, u64> = HashMap::new();
	let mut st_kind: HashMap<&str, u64> = HashMap::new();
	let mut st_sec: HashMap<&str, u64> = HashMap::new();
	let (mut min_h, mut max_h, mut near_half, mut near_mult_rel, mut near_scale_rel) = (u64::MAX, 0u64, u64::MAX, 64u32, 64u32);
	let (mut saturated, mut lifted, mut nondet, mut bad, mut panics) = (0u64, 0u64, 0u64, 0u64, 0u64);
	for i in 0..cases {
		let (ct, cname, ps) = chains[match rng.below(10) {
			0..=3 => 0,
			4..=6 => 1,
			7 => 2,
			_ => 3,
		}];
		global::set_local_chain_type(ct);
		let eb: u8 = match rng.below(10) {
			0..=3 => rng.range(10, 63) as u8,
			4..=6 => rng.range(40, 63) as u8,
			7 | 8 => 29,
			_ => *rng.pick(&[31u8, 32, 30, 28, 63, 10]),
		};
		let height = match rng.below(4) {
			0 => *rng.pick(&heights),
			1 => rng.below(5 * YEAR_HEIGHT),
			2 => YEAR_HEIGHT + rng.below(34 * WEEK_HEIGHT),
			_ => rng.next() >> rng.below(64),
		};
		let sec: u32 = match rng.below(3) {
			0 => *rng.pick(&secs),
			1 => (rng.next() >> rng.range(32, 63)) as u32,
			_ => rng.next() as u32,
		};
		let scale = if eb == 29 { sec as u64 } else { graph_weight(height, eb) };
		let mask = (1u64 << eb) - 1;
		let kind = match i % 8 {
			0 | 7 => "random",
			1 => "min-hash",
			2 => "max-hash",
			3 => "near-2^63",
			4 => "near-multiple-of-scale",
			5 => "near-scale",
			_ => "below-multiple-of-scale",
		};
		let kind = if scale <= 1 && (kind == "near-multiple-of-scale" || kind == "below-multiple-of-scale") {
			"min-hash"
		} else {
			kind
		};
		let gen = |rng: &mut Rng| -> Proof {
			let mut nonces: Vec<u64> = (0..ps)
				.map(|_| match rng.below(8) {
					0 => mask - rng.below(4),
					1 => rng.below(4),
					_ => rng.next() & mask,
				})
				.collect();
			if rng.chance(7, 8) {
				nonces.sort_unstable();
			}
			Proof {
				edge_bits: eb,
				nonces,
			}
		};
		// steer the hash prefix: the best of `kcand` candidate nonce lists
		let score = |h: u64| -> u64 {
			match kind {
				"min-hash" => h,
				"max-hash" => u64::MAX - h,
				"near-2^63" => (h as i128 - (1i128 << 63)).abs() as u64,
				"near-multiple-of-scale" => std::cmp::min(h % scale, scale - h % scale),
				"below-multiple-of-scale" => scale - 1 - h % scale,
				"near-scale" => (h as i128 - scale as i128).abs() as u64,
				_ => 0,
			}
		};
		let mut p = gen(rng);
		if kind != "random" {
			let mut best = score(p.hash().to_u64());
			for _ in 1..kcand {
				let c = gen(rng);
				let sc = score(c.hash().to_u64());
				if sc < best {
					best = sc;
					p = c;
				}
			}
		}
		let h = p.hash().to_u64();
		let packed = p.pack_nonces();
		let mut pow = ProofOfWork::default();
		pow.proof = p.clone();
		pow.secondary_scaling = sec;
		pow.nonce = rng.next();
		pow.total_difficulty = Difficulty::from_num(rng.next());
		let pw = pow.clone();
		let d = match catch(move || pw.to_difficulty(height).to_num()) {
			Ok(d) => d,
			Err(_) => {
				panics += 1;
				out.line(&format!("pow todiff {} {} {} {} {}", cname, height, eb, sec, hex(&packed)), "panic");
				continue;
			}
		};
		out.line(&format!("pow todiff {} {} {} {} {}", cname, height, eb, sec, hex(&packed)), &d.to_string());
		// Rust-side oracles: the floor characterisation by multiplication; determinism (the other
		// fields of the ProofOfWork, a proof rebuilt from its serialisation)
		if !diff_ok(scale, h, d) {
			bad += 1;
			out.raw(&format!(
				"#ORACLE-FAIL C05 difficulty is not floor(scale*2^64/max(1,hash)) saturating, at least 1: chain={} height={} edge_bits={} secondary_scaling={} scale={} hash_prefix={} nonces={} result={}",
				cname, height, eb, sec, scale, h, nat_list(&p.nonces), d
			));
		}
		if i % 4 == 0 {
			let mut pow2 = ProofOfWork::default();
			pow2.secondary_scaling = sec;
			pow2.nonce = rng.next();
			pow2.total_difficulty = Difficulty::from_num(rng.next());
			let bytes = ser::ser_vec(&p, ser::ProtocolVersion::local()).unwrap();
			let back: Result<Proof, ser::Error> = ser::deserialize(&mut &bytes[..], ser::ProtocolVersion::local(), ser::DeserializationMode::default());
			if let Ok(q) = back {
				if q.pack_nonces() == packed {
					pow2.proof = q;
					let d2 = pow2.to_difficulty(height).to_num();
					if d2 != d {
						nondet += 1;
						out.raw(&format!(
							"#ORACLE-FAIL C05 difficulty is not a function of the packed nonces: chain={} height={} edge_bits={} secondary_scaling={} packed={} gives {} and {}",
							cname, height, eb, sec, hex(&packed), d, d2
						));
					}
				}
			}
		}
		if i % 8 == 3 {
			let u = pow.to_unscaled_difficulty().to_num();
			out.line(&format!("pow undiff {}", hex(&packed)), &u.to_string());
			if !diff_ok(1, h, u) {
				bad += 1;
				out.raw(&format!("#ORACLE-FAIL C05 unscaled difficulty of nonces={} edge_bits={} hash_prefix={} is {}", nat_list(&p.nonces), eb, h, u));
			}
		}
		// statistics
		*st_chain.entry(cname).or_insert(0) += 1;
		*st_kind.entry(kind).or_insert(0) += 1;
		*st_eb.entry(match eb {
			29 => "29(secondary)",
			31 => "31(phase-out)",
			10..=23 => "10-23",
			24..=39 => "24-39",
			40..=52 => "40-52",
			_ => "53-63",
		})
		.or_insert(0) += 1;
		*st_scale.entry(match bits_of(scale) {
			0 => "0",
			1 => "1",
			2..=16 => "2^1..2^16",
			17..=32 => "2^16..2^32",
			33..=45 => "2^32..2^45",
			46..=54 => "2^45..2^54",
			55..=61 => "2^54..2^61",
			_ => "2^61..2^64(wrapped weights)",
		})
		.or_insert(0) += 1;
		if eb == 29 {
			*st_sec.entry(match sec {
				0 => "0",
				1 => "1",
				u32::MAX => "u32::MAX",
				2..=65535 => "2..2^16",
				_ => "2^16..",
			})
			.or_insert(0) += 1;
		}
		if d == u64::MAX {
			saturated += 1;
		}
		if scale == 0 {
			lifted += 1;
		}
		*st_res.entry(match bits_of(d) {
			0..=1 => "1",
			2..=32 => "2..2^32",
			33..=53 => "2^32..2^53",
			54..=63 => "2^53..2^63",
			_ => ">=2^63",
		})
		.or_insert(0) += 1;
		min_h = std::cmp::min(min_h, h);
		max_h = std::cmp::max(max_h, h);
		near_half = std::cmp::min(near_half, (h as i128 - (1i128 << 63)).abs() as u64);
		if scale >= (1 << 40) {
			// distance to the nearest multiple of the scale / to the scale, in bits below the scale
			let dm = std::cmp::min(h % scale, scale - h % scale);
			near_mult_rel = std::cmp::min(near_mult_rel, bits_of(dm) + 64 - bits_of(scale));
			let ds = (h as i128 - scale as i128).abs() as u64;
			near_scale_rel = std::cmp::min(near_scale_rel, bits_of(ds) + 64 - bits_of(scale));
		}
	}
	let show = |m: &HashMap<&str, u64>| -> String {
		let mut v: Vec<String> = m.iter().map(|(k, c)| format!("{}={}", k, c)).collect();
		v.sort();
		v.join(" ")
	};
	out.raw(&format!("#STAT dif to_difficulty cases={} (candidates per steered case={}) by chain: {}", cases, kcand, show(&st_chain)));
	out.raw(&format!("#STAT dif edge_bits: {}", show(&st_eb)));
	out.raw(&format!("#STAT dif effective scale: {}", show(&st_scale)));
	out.raw(&format!("#STAT dif secondary_scaling at edge_bits 29: {}", show(&st_sec)));
	out.raw(&format!("#STAT dif steering: {}", show(&st_kind)));
	out.raw(&format!("#STAT dif result size: {} ; saturated at u64::MAX={} scale 0 lifted to 1 by from_num={} panics={}", show(&st_res), saturated, lifted, panics));
	out.raw(&format!(
		"#STAT dif hash prefix extremes: min={} ({} bits) max=2^64-{} nearest to 2^63: distance {} bits; for scales >= 2^40: nearest multiple of the scale within 2^-{} of the scale, nearest to the scale itself within 2^-{}",
		min_h, bits_of(min_h), (u64::MAX - max_h) as u128 + 1, bits_of(near_half), 64 - near_mult_rel.min(64), 64 - near_scale_rel.min(64)
	));
	out.raw(&format!("#STAT dif Rust-side oracle (floor characterisation by multiplication) failures={} determinism failures={}", bad, nondet));
}

// ---------------------------------------------------------------------------------------------
// (vii) the node's entry point `pow::verify_size(&BlockHeader)`: every nonce count through it

fn vsize(out: &mut Out, rng: &mut Rng, thorough: bool) {
	use grin_core::consensus::{header_version, HARD_FORK_INTERVAL, TESTING_HARD_FORK_INTERVAL};
	use grin_core::core::hash::Hash;
	use grin_core::core::BlockHeader;
	use grin_core::genesis;
	use grin_core::pow::{pow_size, verify_size, Difficulty};
	let chains = [
		(ChainTypes::AutomatedTesting, "automatedtesting"),
		(ChainTypes::UserTesting, "usertesting"),
		(ChainTypes::Testnet, "testnet"),
		(ChainTypes::Mainnet, "mainnet"),
	];
	let vs_name = |r: &Result<(), Error>| -> &'static str {
		match r {
			Err(Error::Verification(s)) if s == "no cuckaroo past HardFork4" => "noctx",
			_ => err_name(r),
		}
	};
	// statistics: (chain, count class) -> verdict -> n
	let mut st: HashMap<(String, &'static str), HashMap<&'static str, u64>> = HashMap::new();
	let mut versions: HashMap<String, u64> = HashMap::new();
	let (mut mined, mut mine_attempt_fail, mut headers, mut genuine_full_ok, mut bad, mut skip_ok, mut skip_total) = (0u64, 0u64, 0u64, 0u64, 0u64, 0u64, 0u64);
	// one verify_size call: line + the rule-fixed part as a Rust-side oracle
	let mut offer = |bh: &BlockHeader, cname: &str, ps: usize, genuine: bool, what: &'static str, out: &mut Out, st: &mut HashMap<(String, &'static str), HashMap<&'static str, u64>>, bad: &mut u64| -> &'static str {
		let b2 = bh.clone();
		let res = match catch(move || {
			let r = verify_size(&b2);
			vs_name(&r)
		}) {
			Ok(s) => s,
			Err(_) => "panic",
		};
		// pipeline self-test (never set by ./check): pretend the count test is missing for prefixes
		let res = if std::env::var("VERIF_POW_SELFTEST_VSIZE").is_ok() && what == "prefix" && bh.pow.proof.nonces.len() + 1 == ps && genuine { "ok" } else { res };
		let n = bh.pow.proof.nonces.len();
		*st.entry((cname.to_string(), what)).or_default().entry(res).or_insert(0) += 1;
		let pre = bh.pre_pow();
		if n != ps && (res == "ok" || res == "panic") {
			*bad += 1;
			out.raw(&format!(
				"#ORACLE-FAIL C05 verify_size {} a header carrying {} nonces where exactly {} are required: chain={} height={} version={} edge_bits={} pre_pow={} nonces={} case={}",
				if res == "ok" { "accepts" } else { "panics on" }, n, ps, cname, bh.height, bh.version.0, bh.pow.proof.edge_bits, hex(&pre), nat_list(&bh.pow.proof.nonces), what
			));
		}
		if n == ps && genuine && res != "ok" {
			*bad += 1;
			out.raw(&format!(
				"#ORACLE-FAIL C05 verify_size refuses ({}) a genuinely mined header: chain={} height={} version={} edge_bits={} pre_pow={} nonces={}",
				res, cname, bh.height, bh.version.0, bh.pow.proof.edge_bits, hex(&pre), nat_list(&bh.pow.proof.nonces)
			));
		}
		out.line(
			&format!("pow vsize {} {} {} {} {}", cname, bh.height, bh.pow.proof.edge_bits, hex(&pre), nat_list(&bh.pow.proof.nonces)),
			res,
		);
		res
	};
	for (ct, cname) in chains.iter() {
		global::set_local_chain_type(*ct);
		let ps = global::proofsize();
		let min_eb = global::min_edge_bits();
		let testing = *ct == ChainTypes::AutomatedTesting || *ct == ChainTypes::UserTesting;
		// heights on both sides of every hard fork (header versions 1..5), and beyond the u16 cast
		// of header_version's interval count
		let mut heights: Vec<u64> = vec![];
		match ct {
			ChainTypes::AutomatedTesting | ChainTypes::UserTesting => {
				let t = TESTING_HARD_FORK_INTERVAL;
				for k in 1..=4u64 {
					heights.push(k * t - 1);
					heights.push(k * t);
				}
				heights.extend_from_slice(&[0, 1, 4 * t + 2, 100, 65535 * t, 65536 * t]);
			}
			ChainTypes::Mainnet => {
				let t = HARD_FORK_INTERVAL;
				for k in 1..=4u64 {
					heights.push(k * t - 1);
					heights.push(k * t);
				}
				heights.extend_from_slice(&[0, 1, 5 * t, 65535 * t, 65536 * t, 65538 * t]);
			}
			_ => {
				for t in [185_040u64, 298_080, 552_960, 642_240].iter() {
					heights.push(*t - 1);
					heights.push(*t);
				}
				heights.extend_from_slice(&[0, 1, 1_000_000]);
			}
		}
		for _ in 0..(if thorough { 12 } else { 2 }) {
			heights.push(match ct {
				ChainTypes::AutomatedTesting | ChainTypes::UserTesting => rng.below(20),
				_ => rng.below(6 * HARD_FORK_INTERVAL),
			});
		}
		let mut ebs: Vec<u8> = vec![min_eb, 29, 31, 32];
		ebs.dedup();
		let mut user_mined = 0;
		for h in heights.iter() {
			let ver = header_version(*h);
			*versions.entry(format!("{}:v{}", cname, ver.0)).or_insert(0) += 1;
			for eb in ebs.iter() {
				let mask = (1u64 << eb) - 1;
				let mut bh = BlockHeader::default();
				bh.height = *h;
				bh.version = if rng.chance(1, 8) { grin_core::core::HeaderVersion(rng.range(0, 6) as u16) } else { ver };
				bh.prev_hash = Hash::from_vec(&rng.bytes(32));
				bh.prev_root = Hash::from_vec(&rng.bytes(32));
				bh.output_root = Hash::from_vec(&rng.bytes(32));
				bh.kernel_root = Hash::from_vec(&rng.bytes(32));
				bh.output_mmr_size = rng.below(1 << 20);
				bh.kernel_mmr_size = rng.below(1 << 20);
				bh.pow.nonce = rng.next();
				bh.pow.secondary_scaling = rng.next() as u32;
				bh.pow.total_difficulty = Difficulty::from_num(rng.next() >> rng.below(64));
				bh.pow.proof.edge_bits = *eb;
				// a genuinely mined header where the repo's miner can do it (testing types at their
				// minimum edge_bits; for UserTesting one header per version in the quick tier)
				let mut genuine = false;
				let mine = testing && *eb == min_eb && (*ct == ChainTypes::AutomatedTesting || thorough || (user_mined < 5 && *h % 3 == 0));
				if mine {
					let mut b = bh.clone();
					let r = catch(std::panic::AssertUnwindSafe(move || {
						let r = pow_size(&mut b, Difficulty::zero(), ps, min_eb);
						(r.is_ok(), b)
					}));
					match r {
						Ok((true, b)) => {
							bh = b;
							genuine = true;
							mined += 1;
							if *ct == ChainTypes::UserTesting {
								user_mined += 1;
							}
						}
						_ => mine_attempt_fail += 1,
					}
				}
				if !genuine {
					// any header: for a wrong count the answer is fixed regardless of the cycle
					let mut ns: Vec<u64> = vec![];
					while ns.len() < ps {
						let x = rng.next() & mask;
						if !ns.contains(&x) {
							ns.push(x);
						}
					}
					ns.sort_unstable();
					bh.pow.proof.nonces = ns;
				}
				headers += 1;
				let full = bh.pow.proof.nonces.clone();
				let last = full[ps - 1];
				// every count 0 ..= proofsize
				for count in 0..=ps {
					let mut b = bh.clone();
					b.pow.proof.nonces = full[..count].to_vec();
					let what = if count == 0 { "empty" } else if count < ps { "prefix" } else if genuine { "full-genuine" } else { "full-random" };
					let r = offer(&b, cname, ps, genuine, what, out, &mut st, &mut bad);
					if count == ps && genuine && r == "ok" {
						genuine_full_ok += 1;
					}
				}
				// proofsize + 1, + 2: duplicates of the last nonce, larger values, out of range
				let exts: Vec<Vec<u64>> = vec![
					vec![last],
					vec![last, last],
					vec![last + 1],
					vec![last + 1, last + 2],
					vec![mask + 1 + rng.below(1000)],
					vec![last.saturating_add(rng.range(1, 1 << 20)), u64::MAX],
				];
				for e in exts.iter() {
					let mut b = bh.clone();
					b.pow.proof.nonces.extend_from_slice(e);
					offer(&b, cname, ps, genuine, "extended", out, &mut st, &mut bad);
				}
				// the same header read back in the skip-proof deserialisation mode: no nonces
				if let Ok(bytes) = ser::ser_vec(&bh, ser::ProtocolVersion::local()) {
					let back: Result<BlockHeader, ser::Error> =
						ser::deserialize(&mut &bytes[..], ser::ProtocolVersion::local(), ser::DeserializationMode::SkipPow);
					if let Ok(b) = back {
						skip_total += 1;
						if b.pow.proof.nonces.is_empty() && b.pre_pow() == bh.pre_pow() {
							skip_ok += 1;
						}
						offer(&b, cname, ps, genuine, "skip-proof-header", out, &mut st, &mut bad);
					}
				}
				// an empty proof on an unrelated header
				{
					let mut b = BlockHeader::default();
					b.height = rng.below(1 << 21);
					b.version = header_version(b.height);
					b.prev_hash = Hash::from_vec(&rng.bytes(32));
					b.pow.nonce = rng.next();
					b.pow.proof.edge_bits = *eb;
					b.pow.proof.nonces = vec![];
					offer(&b, cname, ps, false, "empty-unrelated", out, &mut st, &mut bad);
				}
			}
		}
		// the chain's own genesis header (a real proof of work on Mainnet / Testnet)
		let g = match ct {
			ChainTypes::Mainnet => Some(genesis::genesis_main().header),
			ChainTypes::Testnet => Some(genesis::genesis_test().header),
			_ => None,
		};
		if let Some(gh) = g {
			let b0 = gh.clone();
			let genuine = catch(move || verify_size(&b0).is_ok()).unwrap_or(false);
			out.raw(&format!(
				"#STAT vsize {} genesis header: edge_bits={} nonces={} verify_size accepts it: {}",
				cname, gh.pow.proof.edge_bits, gh.pow.proof.nonces.len(), genuine
			));
			let full = gh.pow.proof.nonces.clone();
			if full.len() == ps {
				headers += 1;
				for count in 0..=ps {
					let mut b = gh.clone();
					b.pow.proof.nonces = full[..count].to_vec();
					let what = if count == 0 { "empty" } else if count < ps { "prefix" } else if genuine { "full-genuine" } else { "full-random" };
					let r = offer(&b, cname, ps, genuine, what, out, &mut st, &mut bad);
					if count == ps && genuine && r == "ok" {
						genuine_full_ok += 1;
					}
				}
				for e in [vec![full[ps - 1]], vec![full[ps - 1] + 1], vec![full[ps - 1] + 1, full[ps - 1] + 2]].iter() {
					let mut b = gh.clone();
					b.pow.proof.nonces.extend_from_slice(e);
					offer(&b, cname, ps, genuine, "extended", out, &mut st, &mut bad);
				}
			}
		}
	}
	out.raw(&format!(
		"#STAT vsize headers={} of which mined by pow_size={} (mining attempts that failed={}) genuine full proofs accepted={} skip-proof headers with empty nonce vector and unchanged pre_pow={}/{} rule violations={}",
		headers, mined, mine_attempt_fail, genuine_full_ok, skip_ok, skip_total, bad
	));
	let mut vv: Vec<String> = versions.iter().map(|(k, v)| format!("{}={}", k, v)).collect();
	vv.sort();
	out.raw(&format!("#STAT vsize heights by scheduled header version: {}", vv.join(" ")));
	let mut keys: Vec<&(String, &'static str)> = st.keys().collect();
	keys.sort();
	for k in keys {
		let mut parts: Vec<String> = st[k].iter().map(|(r, c)| format!("{}={}", r, c)).collect();
		parts.sort();
		out.raw(&format!("#STAT vsize {} {}: {}", k.0, k.1, parts.join(" ")));
	}
}

// ---------------------------------------------------------------------------------------------
// nonce mode: the nonce passed to set_header_nonce is part of the seed, for every value incl. 0
// ---------------------------------------------------------------------------------------------

fn splice(hdr: &[u8], n: u32) -> Vec<u8> {
	let mut h = hdr[..hdr.len() - 4].to_vec();
	h.extend_from_slice(&n.to_le_bytes());
	h
}

fn nonce_str(n: Option<u32>) -> String {
	n.map(|x| x.to_string()).unwrap_or("none".to_string())
}

fn nonce_run(out: &mut Out, rng: &mut Rng, thorough: bool) {
	let ps = 8usize;
	set_chain_for(ps);
	let mut st: HashMap<String, u64> = HashMap::new();
	let mut hit = |st: &mut HashMap<String, u64>, k: &str| *st.entry(k.to_string()).or_insert(0) += 1;
	// (i) the four siphash keys for (header, nonce): headers whose last four bytes are zero /
	// non-zero / equal to the nonce, nonces None, Some(0), Some(1), Some(u32::MAX), Some(random)
	let lens: Vec<usize> = if thorough { vec![4, 5, 7, 8, 9, 16, 80, 80, 80, 81, 113, 238, 300] } else { vec![4, 5, 8, 80, 80, 113, 238] };
	for len in lens.iter() {
		for tail in ["zero", "nonzero", "eq-nonce"].iter() {
			for nonce in [None, Some(0u32), Some(1), Some(u32::MAX), Some(rng.next() as u32), Some(0x0100_0000)].iter() {
				let mut hdr = rng.bytes(*len);
				let l = hdr.len();
				match *tail {
					"zero" => hdr[l - 4..].copy_from_slice(&[0, 0, 0, 0]),
					"nonzero" => {
						for b in hdr[l - 4..].iter_mut() {
							*b |= 0x11;
						}
					}
					_ => {
						if let Some(n) = nonce {
							hdr[l - 4..].copy_from_slice(&n.to_le_bytes());
						}
					}
				}
				let hc = hdr.clone();
				let nn = *nonce;
				let k = match catch(move || real_keys(&hc, nn)) {
					Ok(k) => k,
					Err(_) => {
						out.raw(&format!("#ORACLE-FAIL C05 set_header_nonce panicked: header={} nonce={}", hex(&hdr), nonce_str(*nonce)));
						continue;
					}
				};
				hit(&mut st, &format!("keys_{}_{}", tail, match nonce { None => "none", Some(0) => "some0", Some(1) => "some1", Some(u32::MAX) => "somemax", _ => "someother" }));
				// independent derivation: the real code on the header spliced BY HAND, without a nonce
				let spliced = match nonce {
					Some(n) => splice(&hdr, *n),
					None => hdr.clone(),
				};
				let k2 = real_keys(&spliced, None);
				if k != k2 {
					out.raw(&format!(
						"#ORACLE-FAIL C05 siphash keys of (header, nonce {}) are not those of the header with the nonce spliced into its last 4 bytes: header={} keys=[{}] expected=[{}]",
						nonce_str(*nonce), hex(&hdr), keys_str(&k), keys_str(&k2)
					));
				}
				if let Some(n) = nonce {
					if hdr[l - 4..] != n.to_le_bytes() && k == real_keys(&hdr, None) {
						out.raw(&format!(
							"#ORACLE-FAIL C05 nonce {} ignored: (header, Some(nonce)) gives the keys of the unmodified header={} keys=[{}]",
							n, hex(&hdr), keys_str(&k)
						));
					}
				}
				out.line(&format!("pow keysspec {} {}", hex(&hdr), nonce_str(*nonce)), &keys_str(&k));
			}
		}
	}
	// (ii) all five graph definitions: a cycle of the graph of header||nonce (spliced by hand, keys
	// derived without a nonce) verifies in a context seeded with (original header, Some(nonce)) and is
	// refused by a context seeded with the unmodified header
	let ebs: Vec<u8> = if thorough { vec![6, 7, 8, 9, 10, 11, 12] } else { vec![6, 7, 8, 10] };
	for v in VARS.iter() {
		for eb in ebs.iter() {
			for (ni, n) in [0u32, 1, u32::MAX, rng.next() as u32, 0].iter().enumerate() {
				// header tail: non-zero (and not the nonce); for the last round zero with nonce 0
				let mut found: Option<(Vec<u8>, Vec<u8>, [u64; 4], Vec<u64>)> = None;
				for _ in 0..600 {
					let mut hdr = rng.bytes(80);
					if ni == 4 {
						hdr[76..].copy_from_slice(&[0, 0, 0, 0]);
					} else {
						for b in hdr[76..].iter_mut() {
							*b |= 0x11;
						}
						if hdr[76..] == n.to_le_bytes() {
							continue;
						}
					}
					let spliced = splice(&hdr, *n);
					let keys = real_keys(&spliced, None);
					let eps_all: Vec<(u64, u64)> = (0..(1u64 << *eb)).map(|x| v.ep(&keys, *eb, x)).collect();
					let mut budget = 300_000u64;
					let cyc = find_cycles(*v, &eps_all, ps, &mut budget, 1);
					if let Some(c) = cyc.into_iter().next() {
						found = Some((hdr, spliced, keys, c));
						break;
					}
				}
				let (hdr, spliced, keys, cyc) = match found {
					Some(x) => x,
					None => {
						hit(&mut st, "no_cycle_found");
						continue;
					}
				};
				let edge_mask = (1u64 << *eb) - 1;
				let mut near = cyc.clone();
				near[ps - 1] = if near[ps - 1] < edge_mask { near[ps - 1] + 1 } else { near[ps - 1] - 1 };
				near.sort_unstable();
				near.dedup();
				let mut ctx = v.ctx(*eb, ps);
				out.line(&format!("pow hnew {} {} {} {}", v.name(), eb, ps, ps), "ok");
				let tail = if ni == 4 { "zero-tail" } else { "nonzero-tail" };
				let seedings: Vec<(&str, Vec<u8>, Option<u32>)> = vec![
					("header+Some(nonce)", hdr.clone(), Some(*n)),
					("header+None", hdr.clone(), None),
					("spliced+None", spliced.clone(), None),
					("spliced+Some(nonce)", spliced.clone(), Some(*n)),
					("header+Some(nonce^1)", hdr.clone(), Some(*n ^ 1)),
					("header+Some(nonce)", hdr.clone(), Some(*n)),
				];
				for (what, h, nonce) in seedings.iter() {
					let r = ctx.set_header_nonce(h.clone(), *nonce, false);
					if r.is_err() {
						out.raw(&format!("#ORACLE-FAIL C05 set_header_nonce failed: {} header={} nonce={}", v.name(), hex(h), nonce_str(*nonce)));
						continue;
					}
					let shown = if *v == Var::Cuckatoo { keys_str(&real_keys(h, *nonce)) } else { "-".to_string() };
					out.line(&format!("pow hseed {} {} false", hex(h), nonce_str(*nonce)), &shown);
					// the graph this seeding must give: the header with the nonce spliced in
					let want_bytes = match nonce {
						Some(x) => splice(h, *x),
						None => h.clone(),
					};
					let wkeys = real_keys(&want_bytes, None);
					for (pname, p) in [("cycle", &cyc), ("near-miss", &near)].iter() {
						let proof = Proof { edge_bits: *eb, nonces: p.to_vec() };
						let cref = std::panic::AssertUnwindSafe(&ctx);
						let res = match catch(move || err_name(&cref.verify(&proof))) {
							Ok(s) => s,
							Err(_) => "panic",
						};
						let eps: Vec<(u64, u64)> = p.iter().map(|x| v.ep(&wkeys, *eb, *x)).collect();
						let want = oracle(*v, ps, edge_mask, &eps, p);
						hit(&mut st, &format!("{}_n{}_{}_{}_{}", tail, match ni { 0 | 4 => "0", 1 => "1", 2 => "max", _ => "rnd" }, what, pname, if res == "ok" { "accepted" } else { "refused" }));
						if (res == "ok") != want {
							out.raw(&format!(
								"#ORACLE-FAIL C05 {} edge_bits={} context seeded with ({}, nonce {}) [{}]: verify of the {} {} of the graph of header||nonce answered {} but the graph of the seeding {} it: header={} spliced={} keys_of_spliced=[{}]",
								v.name(), eb, what, nonce_str(*nonce), tail, pname, nat_list(p), res,
								if want { "contains" } else { "does not contain" }, hex(&hdr), hex(&spliced), keys_str(&keys)
							));
						}
						out.line(&format!("pow hverify {}:{} {}", what.replace(' ', "_"), pname, nat_list(p)), res);
					}
				}
			}
		}
	}
	let mut parts: Vec<String> = st.iter().map(|(k, v)| format!("{}={}", k, v)).collect();
	parts.sort();
	out.raw(&format!("#STAT nonce: {}", parts.join(" ")));
}

// ---------------------------------------------------------------------------------------------
// order mode: a verdict is a function of (variant, header, nonce, proof) - not of what the same
// THREAD hashed or verified before
// ---------------------------------------------------------------------------------------------

/// siphash 2-4 written here from the definition (NOT the repo's source file): the endpoint
/// derivation of this run's oracle must not share any state with the code under test
fn ind_sip_round(v: &mut [u64; 4], rot_e: u32) {
	v[0] = v[0].wrapping_add(v[1]);
	v[2] = v[2].wrapping_add(v[3]);
	v[1] = v[1].rotate_left(13);
	v[3] = v[3].rotate_left(16);
	v[1] ^= v[0];
	v[3] ^= v[2];
	v[0] = v[0].rotate_left(32);
	v[2] = v[2].wrapping_add(v[1]);
	v[0] = v[0].wrapping_add(v[3]);
	v[1] = v[1].rotate_left(17);
	v[3] = v[3].rotate_left(rot_e);
	v[1] ^= v[2];
	v[3] ^= v[0];
	v[2] = v[2].rotate_left(32);
}
fn ind_sip_hash(v: &mut [u64; 4], nonce: u64, rot_e: u32) -> u64 {
	v[3] ^= nonce;
	ind_sip_round(v, rot_e);
	ind_sip_round(v, rot_e);
	v[0] ^= nonce;
	v[2] ^= 0xff;
	for _ in 0..4 {
		ind_sip_round(v, rot_e);
	}
	(v[0] ^ v[1]) ^ (v[2] ^ v[3])
}
fn ind_siphash24(k: &[u64; 4], nonce: u64) -> u64 {
	let mut v = *k;
	ind_sip_hash(&mut v, nonce, 21)
}
fn ind_siphash_block(k: &[u64; 4], nonce: u64, rot_e: u8, xor_all: bool) -> u64 {
	let n0 = nonce & !63;
	let ni = (nonce & 63) as usize;
	let mut v = *k;
	let mut hs = [0u64; 64];
	for i in 0..64u64 {
		hs[i as usize] = ind_sip_hash(&mut v, n0 + i, rot_e as u32);
	}
	let mut x = hs[ni];
	let from = if xor_all || ni == 63 { ni + 1 } else { 63 };
	for h in hs.iter().skip(from) {
		x ^= *h;
	}
	x
}
fn ind_ep(v: Var, keys: &[u64; 4], eb: u8, n: u64) -> (u64, u64) {
	match v {
		Var::Cuckatoo => {
			let nm = (1u64 << eb) - 1;
			(ind_siphash24(keys, 2 * n) & nm, ind_siphash24(keys, 2 * n + 1) & nm)
		}
		_ => {
			let (nb, rot, xa) = match v {
				Var::Cuckaroo => (eb, 21, false),
				Var::Cuckarood => (eb - 1, 25, false),
				Var::Cuckaroom => (eb, 21, true),
				_ => (eb + 1, 21, true),
			};
			let nm = (1u64 << nb) - 1;
			let e = ind_siphash_block(keys, n, rot, xa);
			(e & nm, (e >> 32) & nm)
		}
	}
}

/// one verification to perform: fresh context of `v` seeded with (`hdr`, `nonce`), verify `proof`
#[derive(Clone)]
struct OrdItem {
	v: Var,
	eb: u8,
	ps: usize,
	hdr: Vec<u8>,
	nonce: Option<u32>,
	keys: [u64; 4],
	proof: Vec<u64>,
	/// verdict of the independent oracle on the independently derived graph
	want: bool,
	what: String,
}

fn ord_verify(it: &OrdItem) -> &'static str {
	let it = it.clone();
	match catch(move || {
		let mut ctx = it.v.ctx(it.eb, it.ps);
		if ctx.set_header_nonce(it.hdr.clone(), it.nonce, false).is_err() {
			return "othererr";
		}
		err_name(&ctx.verify(&Proof { edge_bits: it.eb, nonces: it.proof.clone() }))
	}) {
		Ok(s) => s,
		Err(_) => "panic",
	}
}

/// run the items one after the other on ONE freshly spawned thread
fn ord_thread(items: Vec<OrdItem>) -> Vec<&'static str> {
	std::thread::spawn(move || {
		let mut r = vec![];
		for it in items.iter() {
			set_chain_for(it.ps);
			r.push(ord_verify(it));
		}
		r
	})
	.join()
	.unwrap_or_default()
}

fn order_run(out: &mut Out, rng: &mut Rng, thorough: bool) {
	let mut st: HashMap<String, u64> = HashMap::new();
	let mut hit = |st: &mut HashMap<String, u64>, k: &str| *st.entry(k.to_string()).or_insert(0) += 1;
	let mut fails = 0u64;
	// --- A: verifications of different graph definitions sharing header and keys, in every order
	let ps = 8usize;
	set_chain_for(ps);
	let ebs: Vec<u8> = if thorough { vec![4, 4, 5, 5, 6, 6, 6, 6, 7, 7, 8, 9, 10] } else { vec![4, 5, 6, 6, 6, 7, 8, 9] };
	let mut all_groups: Vec<Vec<OrdItem>> = vec![];
	for eb in ebs.iter() {
		// a header in whose graphs Cuckarood (rotation 25) AND at least one rotation-21 block variant
		// have an 8-cycle (tiny graphs are a single 64-hash siphash block)
		let mut group: Option<Vec<OrdItem>> = None;
		for _ in 0..(if thorough { 4000 } else { 1500 }) {
			let hdr = rng.bytes(80);
			let keys = real_keys(&hdr, None);
			let mut items: Vec<OrdItem> = vec![];
			let mut cyc_of: Vec<Var> = vec![];
			for v in VARS.iter() {
				let eps_all: Vec<(u64, u64)> = (0..(1u64 << *eb)).map(|n| ind_ep(*v, &keys, *eb, n)).collect();
				let mut budget = 60_000u64;
				let cs = find_cycles(*v, &eps_all, ps, &mut budget, 1);
				let edge_mask = (1u64 << *eb) - 1;
				let proof = match cs.into_iter().next() {
					Some(c) => {
						cyc_of.push(*v);
						c
					}
					None => {
						// no cycle in this variant's graph: any ascending tuple (to be refused)
						let mut t: Vec<u64> = vec![];
						while t.len() < ps {
							let x = rng.below(1u64 << *eb);
							if !t.contains(&x) {
								t.push(x);
							}
						}
						t.sort_unstable();
						t
					}
				};
				let eps: Vec<(u64, u64)> = proof.iter().map(|n| eps_all[*n as usize]).collect();
				let want = oracle(*v, ps, edge_mask, &eps, &proof);
				items.push(OrdItem { v: *v, eb: *eb, ps, hdr: hdr.clone(), nonce: None, keys, proof, want, what: if want { "cycle".into() } else { "non-cycle".into() } });
			}
			let rood = cyc_of.contains(&Var::Cuckarood);
			let r21 = cyc_of.iter().any(|v| matches!(v, Var::Cuckaroo | Var::Cuckaroom | Var::Cuckarooz));
			if rood && r21 && items.iter().filter(|i| i.want).count() >= 2 {
				// also: each variant's proof under every OTHER variant (same keys, another graph)
				let base = items.clone();
				for a in base.iter() {
					for b in base.iter() {
						if a.v != b.v && a.want {
							let edge_mask = (1u64 << *eb) - 1;
							let eps: Vec<(u64, u64)> = a.proof.iter().map(|n| ind_ep(b.v, &keys, *eb, *n)).collect();
							let want = oracle(b.v, ps, edge_mask, &eps, &a.proof);
							items.push(OrdItem { v: b.v, eb: *eb, ps, hdr: hdr.clone(), nonce: None, keys, proof: a.proof.clone(), want, what: format!("cycle-of-{}", a.v.name()) });
						}
					}
				}
				group = Some(items);
				break;
			}
		}
		match group {
			Some(g) => {
				hit(&mut st, &format!("groups_eb{}", eb));
				all_groups.push(g);
			}
			None => hit(&mut st, &format!("no_group_eb{}", eb)),
		}
	}
	// sequences: all ordered pairs A,B and A,B,A of the five primary items of a group, some full
	// permutations, the cross-variant items, and sequences mixing two headers (different keys)
	let mut run_seq = |out: &mut Out, st: &mut HashMap<String, u64>, fails: &mut u64, tag: &str, seq: Vec<OrdItem>, control: &HashMap<String, &'static str>| {
		let res = ord_thread(seq.clone());
		let names: Vec<String> = seq.iter().map(|i| format!("{}@{}:{}", i.v.name(), i.eb, i.what)).collect();
		out.raw(&format!("# order {} one thread: {}", tag, names.join(" -> ")));
		for (i, it) in seq.iter().enumerate() {
			let r = res.get(i).copied().unwrap_or("panic");
			let key = format!("{}|{}|{}|{:?}", it.v.name(), it.eb, hex(&it.hdr), it.proof);
			let alone = control.get(&key).copied().unwrap_or("?");
			hit(st, &format!("{}_pos{}_{}", tag, i.min(3), if r == "ok" { "accepted" } else { "refused" }));
			if (r == "ok") != it.want || r != alone {
				*fails += 1;
				out.raw(&format!(
					"#ORACLE-FAIL C05 verdict depends on what the thread verified before: sequence [{}] position {}: {} edge_bits={} header={} nonce={} proof={} answered {} - alone on a fresh thread {}, the graph {} it (keys=[{}])",
					names.join(" -> "), i, it.v.name(), it.eb, hex(&it.hdr), nonce_str(it.nonce), nat_list(&it.proof), r, alone,
					if it.want { "contains" } else { "does not contain" }, keys_str(&it.keys)
				));
			}
			out.line(
				&format!("pow verify {} {} {} {} {} {}", it.v.name(), it.eb, it.ps, it.ps, keys_str(&it.keys), nat_list(&it.proof)),
				r,
			);
		}
	};
	// control: every item alone on its own fresh thread
	let mut control: HashMap<String, &'static str> = HashMap::new();
	for g in all_groups.iter() {
		for it in g.iter() {
			let r = ord_thread(vec![it.clone()]);
			let key = format!("{}|{}|{}|{:?}", it.v.name(), it.eb, hex(&it.hdr), it.proof);
			let r0 = r.first().copied().unwrap_or("panic");
			if (r0 == "ok") != it.want {
				fails += 1;
				out.raw(&format!("#ORACLE-FAIL C05 order control: {} edge_bits={} header={} proof={} answered {} alone on a fresh thread but the graph {} it", it.v.name(), it.eb, hex(&it.hdr), nat_list(&it.proof), r0, if it.want { "contains" } else { "does not contain" }));
			}
			out.raw("# order control: alone on a fresh thread");
			out.line(&format!("pow verify {} {} {} {} {} {}", it.v.name(), it.eb, it.ps, it.ps, keys_str(&it.keys), nat_list(&it.proof)), r0);
			control.insert(key, r0);
		}
	}
	for (gi, g) in all_groups.iter().enumerate() {
		let prim: Vec<OrdItem> = g[..5].to_vec();
		for a in 0..5 {
			for b in 0..5 {
				if a == b {
					continue;
				}
				run_seq(out, &mut st, &mut fails, "pair", vec![prim[a].clone(), prim[b].clone()], &control);
				run_seq(out, &mut st, &mut fails, "aba", vec![prim[a].clone(), prim[b].clone(), prim[a].clone()], &control);
			}
		}
		for _ in 0..(if thorough { 24 } else { 6 }) {
			let mut perm = prim.clone();
			for i in (1..perm.len()).rev() {
				let j = rng.below(i as u64 + 1) as usize;
				perm.swap(i, j);
			}
			run_seq(out, &mut st, &mut fails, "perm", perm, &control);
		}
		// everything of the group, shuffled, twice over
		let mut all = g.clone();
		all.extend(g.iter().cloned());
		for i in (1..all.len()).rev() {
			let j = rng.below(i as u64 + 1) as usize;
			all.swap(i, j);
		}
		run_seq(out, &mut st, &mut fails, "all", all, &control);
		// two headers (different keys) interleaved on one thread
		if gi + 1 < all_groups.len() {
			let h = &all_groups[gi + 1];
			let mut mix: Vec<OrdItem> = vec![];
			for k in 0..5 {
				mix.push(g[k].clone());
				mix.push(h[(k + 1) % 5].clone());
				mix.push(g[(k + 2) % 5].clone());
			}
			run_seq(out, &mut st, &mut fails, "two-headers", mix, &control);
		}
	}
	// the repo's 19-bit reference solutions (proof size 42), Cuckaroo <-> Cuckarood, on one thread
	{
		let vs = vectors();
		let lens = vector_hdr_lens(&vs);
		let mut refs: Vec<OrdItem> = vec![];
		for (xi, x) in vs.iter().enumerate() {
			if lens[xi] == 0 || x.eb != 19 {
				continue;
			}
			let hdr = vec![0u8; lens[xi]];
			global::set_local_chain_type(ChainTypes::UserTesting);
			let keys = real_keys(&hdr, Some(x.hdr_nonce));
			refs.push(OrdItem { v: x.v, eb: x.eb, ps: 42, hdr, nonce: Some(x.hdr_nonce), keys, proof: x.sol.to_vec(), want: true, what: "reference-vector".into() });
		}
		let mut control19: HashMap<String, &'static str> = HashMap::new();
		for it in refs.iter() {
			let r0 = ord_thread(vec![it.clone()]).first().copied().unwrap_or("panic");
			control19.insert(format!("{}|{}|{}|{:?}", it.v.name(), it.eb, hex(&it.hdr), it.proof), r0);
		}
		if refs.len() >= 2 {
			let mut seq: Vec<OrdItem> = vec![];
			for a in 0..refs.len() {
				for b in 0..refs.len() {
					if a != b {
						seq.push(refs[a].clone());
						seq.push(refs[b].clone());
						seq.push(refs[a].clone());
					}
				}
			}
			run_seq(out, &mut st, &mut fails, "reference-19", seq, &control19);
		}
		set_chain_for(ps);
	}
	// --- B: siphash_block / siphash24 values on ONE thread through many keys, blocks, rotation
	// constants and xor modes (the repo's source file compiled into this binary), each compared with
	// the definition written above, with a fresh thread, and (driver) with the model as a spec value
	{
		let n_calls = if thorough { 20000 } else { 3000 };
		let keysets: Vec<[u64; 4]> = (0..3).map(|_| [rng.next(), rng.next(), rng.next(), rng.next()]).collect();
		let blocks: Vec<u64> = vec![0, 64, 4096, rng.next() >> 8 << 6];
		let mut calls: Vec<(usize, u64, u8, bool, bool)> = vec![]; // (keyset, nonce, rot, xor_all, is_sip24)
		for i in 0..n_calls {
			// mostly stay in the same block and switch one thing at a time
			let last = calls.last().copied().unwrap_or((0, 0, 21, false, false));
			let mut c = last;
			match rng.below(8) {
				0 => c.0 = rng.below(3) as usize,
				1 => c.1 = *rng.pick(&blocks) + rng.below(64),
				2 => c.2 = if c.2 == 21 { 25 } else { 21 },
				3 => c.3 = !c.3,
				4 => c.4 = !c.4,
				5 => c.1 = (c.1 & !63) + rng.below(64),
				6 => {
					c.2 = if c.2 == 21 { 25 } else { 21 };
					c.1 = (c.1 & !63) + rng.below(64);
				}
				_ => {}
			}
			if i == 0 {
				c = (0, 5, 21, false, false);
			}
			calls.push(c);
		}
		let ks = keysets.clone();
		let cs = calls.clone();
		let vals: Vec<u64> = std::thread::spawn(move || {
			cs.iter()
				.map(|(k, n, rot, xa, s24)| if *s24 { siphash24(&ks[*k], *n) } else { siphash_block(&ks[*k], *n, *rot, *xa) })
				.collect()
		})
		.join()
		.unwrap_or_default();
		for (i, (k, n, rot, xa, s24)) in calls.iter().enumerate() {
			let got = vals.get(i).copied().unwrap_or(0);
			let want = if *s24 { ind_siphash24(&keysets[*k], *n) } else { ind_siphash_block(&keysets[*k], *n, *rot, *xa) };
			hit(&mut st, if *s24 { "sip24_calls" } else if *rot == 21 { "sipblock_rot21_calls" } else { "sipblock_rot25_calls" });
			if got != want {
				fails += 1;
				let prev = if i > 0 { format!("{:?}", calls[i - 1]) } else { "-".to_string() };
				out.raw(&format!(
					"#ORACLE-FAIL C05 siphash value depends on earlier calls of the thread: call #{} keys=[{}] nonce={} rot={} xor_all={} siphash24={} gave {} but the definition gives {} (previous call: {})",
					i, keys_str(&keysets[*k]), n, rot, xa, s24, got, want, prev
				));
			}
			if *s24 {
				out.line(&format!("pow sip24spec {} {}", keys_str(&keysets[*k]), n), &got.to_string());
			} else {
				out.line(&format!("pow sipblockspec {} {} {} {}", keys_str(&keysets[*k]), n, rot, xa), &got.to_string());
			}
		}
	}
	if fails == 0 {
		hit(&mut st, "oracle_ok");
	}
	let mut parts: Vec<String> = st.iter().map(|(k, v)| format!("{}={}", k, v)).collect();
	parts.sort();
	out.raw(&format!("#STAT order: {}", parts.join(" ")));
}

// ---------------------------------------------------------------------------------------------
// entry mode: pow::verify_size over the WHOLE u8 range of edge_bits (headers built through the API,
// as the stratum server's submit does), every chain type, every header version: the glue in front
// of the verifiers - create_pow_context dispatch, new_*_ctx node bits, CuckooParams::new shifts,
// Graph::new size bound - against Model/PowEntry.lean (theorem verify_size_accepts_exactly_cycles)
// ---------------------------------------------------------------------------------------------

fn entry_run(out: &mut Out, rng: &mut Rng, thorough: bool) {
	use grin_core::consensus::{header_version, HARD_FORK_INTERVAL, TESTING_HARD_FORK_INTERVAL};
	use grin_core::core::hash::Hash;
	use grin_core::core::BlockHeader;
	use grin_core::pow::{pow_size, verify_size, Difficulty};
	let chains = [
		(ChainTypes::AutomatedTesting, "automatedtesting"),
		(ChainTypes::UserTesting, "usertesting"),
		(ChainTypes::Testnet, "testnet"),
		(ChainTypes::Mainnet, "mainnet"),
	];
	let en_name = |r: &Result<(), Error>| -> &'static str {
		match r {
			Err(Error::Verification(s)) if s == "no cuckaroo past HardFork4" => "noctx",
			Err(Error::Verification(s)) if s == "graph is to big to build" => "toobiggraph",
			_ => err_name(r),
		}
	};
	// (chain, class of edge_bits, case) -> verdict -> n
	let mut st: HashMap<(String, &'static str, String), HashMap<&'static str, u64>> = HashMap::new();
	let mut bad = 0u64;
	let eb_class = |eb: u8| -> &'static str {
		match eb {
			0 => "eb0",
			1..=29 => "eb1-29",
			30..=62 => "eb30-62",
			63 => "eb63",
			_ if eb & 63 == 63 => "eb127/191/255",
			_ => "eb64+",
		}
	};
	let mut offer = |bh: &BlockHeader, cname: &str, ps: usize, genuine_at: Option<u8>, what: &str, out: &mut Out, st: &mut HashMap<(String, &'static str, String), HashMap<&'static str, u64>>, bad: &mut u64| -> &'static str {
		let b2 = bh.clone();
		let res = match catch(move || {
			let r = verify_size(&b2);
			en_name(&r)
		}) {
			Ok(s) => s,
			Err(_) => "panic",
		};
		let eb = bh.pow.proof.edge_bits;
		let ns = &bh.pow.proof.nonces;
		*st.entry((cname.to_string(), eb_class(eb), what.to_string())).or_default().entry(res).or_insert(0) += 1;
		let mask = (1u64 << (eb & 63)).wrapping_sub(1);
		let asc = ns.windows(2).all(|w| w[0] < w[1]);
		let in_range = ns.iter().all(|x| *x <= mask);
		let pre = bh.pre_pow();
		// the part of the rule that needs no graph: count, order, range (range as the shipped build
		// computes the mask: 1u64 << edge_bits takes the low six bits of the amount)
		if res == "ok" && (ns.len() != ps || !asc || !in_range) {
			*bad += 1;
			out.raw(&format!(
				"#ORACLE-FAIL C05 verify_size accepts a proof that breaks the count/order/range rule: chain={} height={} edge_bits={} nonces={} (required count {}, ascending {}, all <= edge mask {}: {}) pre_pow={} case={}",
				cname, bh.height, eb, nat_list(ns), ps, asc, mask, in_range, hex(&pre), what
			));
		}
		if res == "panic" {
			*bad += 1;
			out.raw(&format!("#ORACLE-FAIL C05 verify_size panics: chain={} height={} edge_bits={} nonces={} pre_pow={} case={}", cname, bh.height, eb, nat_list(ns), hex(&pre), what));
		}
		if genuine_at == Some(eb) && res != "ok" {
			*bad += 1;
			out.raw(&format!(
				"#ORACLE-FAIL C05 verify_size refuses ({}) a header whose nonces are a cycle of the graph selected for it: chain={} height={} version={} edge_bits={} nonces={} pre_pow={} case={}",
				res, cname, bh.height, bh.version.0, eb, nat_list(ns), hex(&pre), what
			));
		}
		out.line(&format!("pow entry {} {} {} {} {}", cname, bh.height, eb, hex(&pre), nat_list(ns)), res);
		res
	};
	let quick_ebs: Vec<u8> = vec![0, 1, 2, 3, 5, 6, 9, 10, 11, 15, 16, 28, 29, 30, 31, 32, 33, 61, 62, 63, 64, 65, 69, 70, 73, 74, 75, 79, 92, 93, 94, 95, 96, 126, 127, 128, 138, 139, 191, 192, 202, 203, 254, 255];
	let ebs: Vec<u8> = if thorough { (0u16..=255).map(|x| x as u8).collect() } else { quick_ebs };
	let (mut headers, mut mined, mut solved, mut solve_fail) = (0u64, 0u64, 0u64, 0u64);
	let mut genuine_labels: HashMap<String, u64> = HashMap::new();
	for (ct, cname) in chains.iter() {
		global::set_local_chain_type(*ct);
		let ps = global::proofsize();
		let testing = *ct == ChainTypes::AutomatedTesting || *ct == ChainTypes::UserTesting;
		// one height on each side of every hard fork: header versions 1..5
		let heights: Vec<u64> = match ct {
			ChainTypes::AutomatedTesting | ChainTypes::UserTesting => {
				let t = TESTING_HARD_FORK_INTERVAL;
				vec![0, t, 2 * t - 1, 3 * t, 4 * t]
			}
			ChainTypes::Mainnet => {
				let t = HARD_FORK_INTERVAL;
				vec![0, t - 1, t, 2 * t - 1, 2 * t, 3 * t - 1, 3 * t, 4 * t - 1, 4 * t, 65536 * t]
			}
			_ => vec![0, 185_039, 185_040, 298_079, 298_080, 552_959, 552_960, 642_239, 642_240],
		};
		let mk = |rng: &mut Rng, h: u64, eb: u8| -> BlockHeader {
			let mut bh = BlockHeader::default();
			bh.height = h;
			bh.version = header_version(h);
			bh.prev_hash = Hash::from_vec(&rng.bytes(32));
			bh.prev_root = Hash::from_vec(&rng.bytes(32));
			bh.output_mmr_size = rng.below(1 << 20);
			bh.kernel_mmr_size = rng.below(1 << 20);
			bh.pow.nonce = rng.next();
			bh.pow.secondary_scaling = rng.next() as u32;
			bh.pow.total_difficulty = Difficulty::from_num(rng.next() >> rng.below(64));
			bh.pow.proof.edge_bits = eb;
			bh
		};
		// observation (not judged): Proof::hash (pack_nonces -> pack_bits) at the bit widths no wire proof
		// can have - what to_difficulty / BlockHeader::hash meet on an API-built header
		{
			use grin_core::core::hash::Hashed;
			let mut panics: Vec<String> = vec![];
			let mut fine = 0;
			for w in 64u16..=255 {
				let w = w as u8;
				let m = (1u64 << (w & 63)).wrapping_sub(1);
				let mut ns: Vec<u64> = (0..ps).map(|_| rng.next() & m).collect();
				ns.sort_unstable();
				let pr = Proof { edge_bits: w, nonces: ns };
				if catch(move || pr.hash()).is_err() {
					panics.push(w.to_string());
				} else {
					fine += 1;
				}
			}
			out.raw(&format!("#STAT entry {} Proof::hash with {} nonces at edge_bits 64..255: returns for {} widths, PANICS (pack_bits slice index) for {} widths: [{}]", cname, ps, fine, panics.len(), panics.join(",")));
		}
		// --- made-up nonce lists: the verdict (and the error kind) is fixed by count / order / range /
		// direction balance / endpoint xor, in each variant's own order
		for h in heights.iter() {
			for eb in ebs.iter() {
				let mask = (1u64 << (*eb & 63)).wrapping_sub(1);
				let mut bh = mk(rng, *h, *eb);
				headers += 1;
				// `k` distinct values of `f(x)`, x below `lim`, ascending (fewer when `lim` is too small)
				let pick = |rng: &mut Rng, k: usize, lim: u64, f: &dyn Fn(u64) -> u64| -> Vec<u64> {
					let mut xs: Vec<u64> = vec![];
					if lim <= 4 * k as u64 {
						let mut all: Vec<u64> = (0..lim).collect();
						while all.len() > k {
							let i = rng.below(all.len() as u64) as usize;
							all.remove(i);
						}
						xs = all;
					} else {
						while xs.len() < k {
							let x = rng.below(lim);
							if !xs.contains(&x) {
								xs.push(x);
							}
						}
						xs.sort_unstable();
					}
					xs.iter().map(|x| f(*x)).collect()
				};
				let n_all = mask.wrapping_add(1); // 0 never happens: eb & 63 <= 63
				let half = n_all / 2;
				let mut cases: Vec<(&'static str, Vec<u64>)> = vec![];
				cases.push(("random", pick(rng, ps, n_all, &|x| x)));
				cases.push(("all-even", pick(rng, ps, half, &|x| 2 * x)));
				cases.push(("all-odd", pick(rng, ps, half, &|x| 2 * x + 1)));
				{
					let mut t = pick(rng, ps / 2, half, &|x| 2 * x);
					t.extend(pick(rng, ps - ps / 2, half, &|x| 2 * x + 1));
					t.sort_unstable();
					cases.push(("balanced", t));
				}
				{
					let mut t = pick(rng, ps, n_all, &|x| x);
					if let Some(l) = t.last_mut() {
						*l = mask;
					}
					cases.push(("last-at-mask", t.clone()));
					if let Some(l) = t.last_mut() {
						*l = mask.wrapping_add(1);
					}
					cases.push(("last-over-mask", t.clone()));
					if let Some(l) = t.last_mut() {
						*l = if rng.chance(1, 2) { u64::MAX } else { mask.wrapping_add(1) << rng.below(8) };
					}
					t.sort_unstable();
					cases.push(("far-over-mask", t));
				}
				{
					let mut t = pick(rng, ps, n_all, &|x| x);
					if t.len() >= 2 {
						let i = rng.below(t.len() as u64 - 1) as usize;
						t.swap(i, i + 1);
					}
					cases.push(("swapped", t));
				}
				cases.push(("short", pick(rng, ps - 1, n_all, &|x| x)));
				cases.push(("long", pick(rng, ps + 1, n_all, &|x| x)));
				for (what, ns) in cases.into_iter() {
					bh.pow.proof.nonces = ns;
					offer(&bh, cname, ps, None, what, out, &mut st, &mut bad);
				}
			}
		}
		// --- genuine cycles, offered under their own label and relabelled
		if testing {
			// mined by the repo's own miner at the chain's minimum size
			let min_eb = global::min_edge_bits();
			let n_mine = if *ct == ChainTypes::AutomatedTesting { if thorough { 40 } else { 12 } } else if thorough { 6 } else { 2 };
			for i in 0..n_mine {
				let h = heights[i % heights.len()];
				let mut b = mk(rng, h, min_eb);
				let r = catch(std::panic::AssertUnwindSafe(move || {
					let r = pow_size(&mut b, Difficulty::zero(), ps, min_eb);
					(r.is_ok(), b)
				}));
				if let Ok((true, b)) = r {
					mined += 1;
					if i == 0 {
						// observation (not judged): what the share / header rules compute for the relabelled header
						let mut parts: Vec<String> = vec![];
						for l in [min_eb, min_eb + 64, min_eb + 128, min_eb + 192].iter() {
							let mut x = b.clone();
							x.pow.proof.edge_bits = *l;
							let hh = x.height;
							let x2 = x.clone();
							let d = catch(move || x2.pow.to_difficulty(hh).to_num()).map(|d| d.to_string()).unwrap_or_else(|_| "panic".to_string());
							let x3 = x.clone();
							let v = catch(move || verify_size(&x3).is_ok()).map(|d| d.to_string()).unwrap_or_else(|_| "panic".to_string());
							let x4 = x.clone();
							let w = catch(move || ser::ser_vec(&x4, ser::ProtocolVersion::local()).ok().map(|bytes| {
								let back: Result<BlockHeader, ser::Error> = ser::deserialize(&mut &bytes[..], ser::ProtocolVersion::local(), ser::DeserializationMode::Full);
								back.is_ok()
							})).map(|d| format!("{:?}", d)).unwrap_or_else(|_| "panic".to_string());
							parts.push(format!("label {}: is_primary={} graph_weight={} to_difficulty={} verify_size_ok={} serialised-then-read-back={}", l, x.pow.is_primary(), grin_core::consensus::graph_weight(hh, *l), d, v, w));
						}
						out.raw(&format!("#STAT entry relabel observation {} (one header mined at edge_bits {}, height {}): {}", cname, min_eb, b.height, parts.join("; ")));
					}
					let mut labels: Vec<u8> = vec![min_eb, min_eb + 64, min_eb + 128, min_eb + 192, min_eb - 1, min_eb + 1, min_eb + 63, min_eb + 65, 63, 127, 0, 64, 29, 31];
					for _ in 0..4 {
						labels.push(rng.below(256) as u8);
					}
					for l in labels.iter() {
						let mut x = b.clone();
						x.pow.proof.edge_bits = *l;
						let r = offer(&x, cname, ps, Some(min_eb), "mined-relabelled", out, &mut st, &mut bad);
						*genuine_labels.entry(format!("{}:mined@{}:label{}:{}", cname, min_eb, if *l == min_eb { "=".to_string() } else if (*l & 63) == (min_eb & 63) { "+64k".to_string() } else { "other".to_string() }, r)).or_insert(0) += 1;
					}
				}
			}
			// pow_size with a real target, and mine_genesis_block: IF it returns, the header passes
			// verify_size, reaches the target and carries min_edge_bits as its label
			// (Props/C05Mine.lean pow_size_returns_verified)
			{
				let n_t = if *ct == ChainTypes::AutomatedTesting { if thorough { 30 } else { 10 } } else { 1 };
				let (mut ret, mut okc) = (0u64, 0u64);
				let mut steps: Vec<u64> = vec![];
				for i in 0..n_t {
					let h = heights[i % heights.len()];
					let b0 = mk(rng, h, min_eb);
					let start = b0.pow.nonce;
					let target = Difficulty::from_num(grin_core::consensus::graph_weight(h, min_eb) * rng.range(1, 5));
					let mut b = b0.clone();
					let r = catch(std::panic::AssertUnwindSafe(move || {
						let r = pow_size(&mut b, target, ps, min_eb);
						(r.is_ok(), b)
					}));
					if let Ok((true, b)) = r {
						ret += 1;
						steps.push(b.pow.nonce.wrapping_sub(start));
						let d = b.pow.to_difficulty(b.height);
						let res = offer(&b, cname, ps, Some(min_eb), "pow_size-with-target", out, &mut st, &mut bad);
						if res != "ok" || d < target || b.pow.proof.edge_bits != min_eb {
							bad += 1;
							out.raw(&format!("#ORACLE-FAIL C05 pow_size returned a header that does not verify / reach the target / carry min_edge_bits: chain={} height={} verify_size={} to_difficulty={} target={} edge_bits={} nonces={}", cname, b.height, res, d.to_num(), target.to_num(), b.pow.proof.edge_bits, nat_list(&b.pow.proof.nonces)));
						} else {
							okc += 1;
						}
					}
				}
				let g = catch(|| grin_core::pow::mine_genesis_block().ok());
				let gen = match g {
					Ok(Some(gb)) => {
						let res = offer(&gb.header, cname, ps, Some(min_eb), "mine_genesis_block", out, &mut st, &mut bad);
						let d = gb.header.pow.to_difficulty(0);
						if res != "ok" || d < gb.header.pow.total_difficulty {
							bad += 1;
							out.raw(&format!("#ORACLE-FAIL C05 mine_genesis_block returned a header that does not verify / reach its own total difficulty: chain={} verify_size={} to_difficulty={} total_difficulty={}", cname, res, d.to_num(), gb.header.pow.total_difficulty.to_num()));
						}
						format!("verify_size={} to_difficulty={} >= total_difficulty={}", res, d.to_num(), gb.header.pow.total_difficulty.to_num())
					}
					Ok(None) => "error".to_string(),
					Err(_) => "panic".to_string(),
				};
				// observation (not judged): another graph size than min_edge_bits
				let mut bx = mk(rng, 0, min_eb);
				let rx = catch(std::panic::AssertUnwindSafe(move || {
					let r = pow_size(&mut bx, Difficulty::zero(), ps, min_eb + 1);
					(r.is_ok(), bx)
				}));
				let obs = match rx {
					Ok((true, bx)) => format!("returned a header labelled edge_bits={} (cycle solved on the {}-bit graph), verify_size ok={}", bx.pow.proof.edge_bits, min_eb + 1, verify_size(&bx).is_ok()),
					Ok((false, _)) => "error".to_string(),
					Err(_) => "panic".to_string(),
				};
				out.raw(&format!("#STAT entry {} pow_size with a target: returned={} verified-and-reaching-target={} nonce steps={:?}; mine_genesis_block: {}; pow_size(sz = min_edge_bits + 1): {}", cname, ret, okc, steps, gen, obs));
			}
		} else {
			// Mainnet / Testnet: for every header version a header whose pre_pow seeds an 11-bit graph
			// with a 42-cycle under the graph definition scheduled for that version (found by this
			// harness's own cycle finder); plus Cuckatoo cycles, which only a label above 29 selects
			let eb0: u8 = 11;
			let mut targets: Vec<(Var, u64)> = vec![];
			for h in heights.iter() {
				let v = match header_version(*h).0 {
					1 => Some(Var::Cuckaroo),
					2 => Some(Var::Cuckarood),
					3 => Some(Var::Cuckaroom),
					4 => Some(Var::Cuckarooz),
					_ => None,
				};
				if let Some(v) = v {
					if !targets.iter().any(|t| t.0 == v) || thorough {
						targets.push((v, *h));
					}
				}
				// a graph definition NOT scheduled for this height (must be refused under every label <= 29)
				if thorough || *h == heights[2] {
					targets.push((Var::Cuckatoo, *h));
				}
			}
			targets.push((Var::Cuckatoo, *heights.last().unwrap()));
			for (v, h) in targets.iter() {
				let mut found: Option<BlockHeader> = None;
				let mut tries = 0;
				while tries < 4000 && found.is_none() {
					tries += 1;
					let mut b = mk(rng, *h, eb0);
					let keys = real_keys(&b.pre_pow(), None);
					let eps: Vec<(u64, u64)> = (0..(1u64 << eb0)).map(|n| v.ep(&keys, eb0, n)).collect();
					let mut budget = 300_000u64;
					if let Some(c) = find_cycles(*v, &eps, ps, &mut budget, 1).into_iter().next() {
						// the finder works on vertex classes; keep only what the harness' own cycle oracle
						// confirms (Cuckatoo: a closed walk through node pairs can revisit a node)
						let epsp: Vec<(u64, u64)> = c.iter().map(|n| eps[*n as usize]).collect();
						if oracle(*v, ps, (1u64 << eb0) - 1, &epsp, &c) {
							b.pow.proof.nonces = c;
							found = Some(b);
						}
					}
				}
				match found {
					None => solve_fail += 1,
					Some(b) => {
						solved += 1;
						let scheduled = match header_version(*h).0 {
							1 => Some(Var::Cuckaroo),
							2 => Some(Var::Cuckarood),
							3 => Some(Var::Cuckaroom),
							4 => Some(Var::Cuckarooz),
							_ => None,
						};
						// the label under which the shipped build selects the graph the cycle was found in
						let own: Option<u8> = if *v == Var::Cuckatoo { Some(eb0 + 64) } else if scheduled == Some(*v) { Some(eb0) } else { None };
						let mut labels: Vec<u8> = vec![eb0, eb0 + 64, eb0 + 128, eb0 + 192, eb0 - 1, eb0 + 1, eb0 + 63, eb0 + 65, 29, 30, 31, 63, 0];
						for _ in 0..3 {
							labels.push(rng.below(256) as u8);
						}
						for l in labels.iter() {
							let mut x = b.clone();
							x.pow.proof.edge_bits = *l;
							let r = offer(&x, cname, ps, own, &format!("{}-cycle-relabelled", v.name()), out, &mut st, &mut bad);
							*genuine_labels.entry(format!("{}:{}@v{}:label{}:{}", cname, v.name(), header_version(*h).0, l, r)).or_insert(0) += 1;
						}
					}
				}
			}
		}
	}
	out.raw(&format!(
		"#STAT entry headers with made-up lists={} mined by pow_size={} 42-cycles found at edge_bits 11={} (searches without result={}) rule violations={}",
		headers, mined, solved, solve_fail, bad
	));
	let mut gl: Vec<String> = genuine_labels.iter().map(|(k, v)| format!("{}={}", k, v)).collect();
	gl.sort();
	out.raw(&format!("#STAT entry genuine cycles by label: {}", gl.join(" ")));
	let mut keys: Vec<&(String, &'static str, String)> = st.keys().collect();
	keys.sort();
	for k in keys {
		let mut parts: Vec<String> = st[k].iter().map(|(r, c)| format!("{}={}", r, c)).collect();
		parts.sort();
		out.raw(&format!("#STAT entry {} {} {}: {}", k.0, k.1, k.2, parts.join(" ")));
	}
}

fn main() {
	quiet_panics();
	let args: Vec<String> = std::env::args().collect();
	let mode = args.get(1).map(|s| s.as_str()).unwrap_or("sip");
	if mode == "hangprobe" {
		hangprobe(&args[2..]);
		return;
	}
	let _ = Var::from_name("cuckatoo");
	global::set_local_chain_type(ChainTypes::AutomatedTesting);
	let mut rng = Rng::new(seed_from_env() ^ (mode.len() as u64 * 7919));
	let thorough = tier_thorough();
	let mut out = Out::stdout();
	match mode {
		"sip" => sip(&mut out, &mut rng, thorough),
		"exh" => exh(&mut out, &mut rng, thorough),
		"solve" => solve(&mut out, &mut rng, thorough),
		"pack" => pack(&mut out, &mut rng, thorough),
		"select" => select(&mut out, &mut rng, thorough),
		"hist" => hist(&mut out, &mut rng, thorough),
		"nonce" => nonce_run(&mut out, &mut rng, thorough),
		"order" => order_run(&mut out, &mut rng, thorough),
		"dif" => dif(&mut out, &mut rng, thorough),
		"vsize" => vsize(&mut out, &mut rng, thorough),
		"entry" => entry_run(&mut out, &mut rng, thorough),
		_ => panic!("unknown mode"),
	}
	out.flush();
}
