//! C19 correspondence: the real `Codec` (through the `verif_export` hook) reads, from a loopback
//! `TcpStream`, byte streams produced by the real `write_message`, delivered in chosen fragments.
//!
//! Lines (see lean/GrinVerif/Drv/CodecD.lean):
//!   codec run <ver> <frags> => [ev;ev;…]
//!       frags = `[hex,hex,…]` in the order written; events (in the order `Codec::read` returned them):
//!         body:<t>:<canon>:<bytes_read>      a decoded message (canon = value re-serialised)
//!         unknown:<t>:<bytes_read>
//!         headers:<n>:<remaining>:<canon of the batch>:<bytes_read>
//!         att:<read>:<left>:<sum>:<bytes_read>
//!         end:<Error>:<bytes_read>[:<maxreq>] how the reader loop ended
//!   codec hs accept <our-genesis> <stream-hex>   => ok <version> | err <E>
//!   codec hs initiate <our-genesis> <stream-hex> => ok <version> | err <E>
//!   codec hs self => err PeerWithSelf
//!   codec timed <ver> <[ms:frag,ms:frag,…]> => [ev;…;pongs:<n>;closed:<0|1>]
//!       the real reader thread (`conn::listen` + a `MessageHandler`) on a loopback connection; every
//!       fragment is written after a REAL pause of `ms` milliseconds (pauses longer than
//!       HEADER_IO_TIMEOUT = 2 s placed strictly inside a message body / one top-up read of the codec);
//!       events as the handler sees them: body:<t>:<canon> | headers:<n>:<remaining>:<canon> |
//!       att:<read>:<left> | attsum:<len>:<sum> (file written by conn.rs), then the number of Pongs the
//!       peer received for its Pings and whether the reader closed the connection
//!   codec ring new | push <nonce> | self <nonce> | replay <nonce>
//!       ONE long-lived real `Handshake`: outbound attempts (nonce read off the wire), then it dials
//!       itself; `replay` = a scripted `Hand` carrying one of its older nonces
//!
//! Oracle evaluated here on the implementation (`#ORACLE-FAIL C19 …`): the sequence read differs from
//! the sequence written (types, canonical bodies, header batches, attachment bytes) for some
//! fragmentation; a refused frame header consumed more than the header or made the codec request
//! more than 64 KiB; handshake settles on something else than min(version) / accepts a different
//! genesis / accepts itself (also after 0…250 earlier outbound attempts of the same `Handshake`);
//! a message sequence written with tolerated pauses is not delivered exactly, a Ping is not
//! answered, or the connection does not survive.
use chrono::Utc;
use grin_core::core::hash::{Hash, Hashed};
use grin_core::core::{
	Block, BlockHeader, CompactBlock, HeaderVersion, Input, Inputs, KernelFeatures, Output, OutputFeatures, OutputIdentifier,
	Segment, SegmentIdentifier, Transaction, TransactionBody, TxKernel,
};
use grin_core::global::{self, ChainTypes};
use grin_core::pow::{Difficulty, Proof, ProofOfWork};
use grin_core::ser::{self, DeserializationMode, ProtocolVersion, Writeable};
use grin_keychain::BlindingFactor;
use grin_p2p::handshake::Handshake;
use grin_p2p::msg::{
	write_message, BanReason, Consumed, GetPeerAddrs, Hand, Headers, Locator, Message, Msg, MsgHeader, PeerAddrs,
	Ping, Pong, SegmentRequest, Shake, TxHashSetArchive, TxHashSetRequest, Type,
};
use grin_p2p::msg::read_message;
use grin_p2p::types::{
	AttachmentMeta, Capabilities, ChainAdapter, NetAdapter, P2PConfig, PeerAddr, PeerInfo, ReasonForBan, TxHashSetRead,
};
use grin_p2p::Peer;
use grin_p2p::verif_export::{listen, Codec, MessageHandler, Tracker};
use grin_util::secp::pedersen::{Commitment, RangeProof};
use gvharness::*;
use std::alloc::{GlobalAlloc, Layout, System};
use std::collections::BTreeMap;
use std::io::{Read, Write};
use std::net::{Shutdown, TcpListener, TcpStream};
use std::sync::atomic::{AtomicUsize, Ordering};
use std::sync::{Arc, Mutex};
use std::time::{Duration, Instant};

// largest single allocation request (whole process; the writer thread only writes)
static MAX_REQ: AtomicUsize = AtomicUsize::new(0);
struct Counting;
unsafe impl GlobalAlloc for Counting {
	unsafe fn alloc(&self, l: Layout) -> *mut u8 {
		MAX_REQ.fetch_max(l.size(), Ordering::Relaxed);
		System.alloc(l)
	}
	unsafe fn alloc_zeroed(&self, l: Layout) -> *mut u8 {
		MAX_REQ.fetch_max(l.size(), Ordering::Relaxed);
		System.alloc_zeroed(l)
	}
	unsafe fn dealloc(&self, p: *mut u8, l: Layout) {
		System.dealloc(p, l)
	}
	unsafe fn realloc(&self, p: *mut u8, l: Layout, n: usize) -> *mut u8 {
		MAX_REQ.fetch_max(n, Ordering::Relaxed);
		System.realloc(p, l, n)
	}
}
#[global_allocator]
static GLOBAL: Counting = Counting;

const VERSIONS: [u32; 4] = [1, 2, 3, 1000];

// connection level: writer side, handler results, handshake messages on the wire
#[path = "../codec_ext.rs"]
mod ext;
#[path = "../codec_glue.rs"]
mod glue;
#[path = "../codec_more.rs"]
mod more;

struct Ctx {
	out: Out,
	rng: Rng,
	thorough: bool,
	stats: BTreeMap<String, u64>,
	fails: u64,
	pool: Vec<BlockHeader>,
	sized_pool: BTreeMap<u8, Vec<BlockHeader>>,
}
impl Ctx {
	fn stat(&mut self, k: &str) {
		*self.stats.entry(k.to_string()).or_insert(0) += 1;
	}
}

fn sv<T: Writeable>(v: &T, ver: u32) -> Vec<u8> {
	ser::ser_vec(v, ProtocolVersion(ver)).unwrap()
}

fn hash32(rng: &mut Rng) -> Hash {
	Hash::from_vec(&rng.bytes(32))
}

fn gen_addr(rng: &mut Rng) -> PeerAddr {
	use std::net::{IpAddr, Ipv4Addr, Ipv6Addr, SocketAddr};
	let port = rng.next() as u16;
	if rng.chance(2, 3) {
		let b = rng.bytes(4);
		PeerAddr(SocketAddr::new(IpAddr::V4(Ipv4Addr::new(b[0], b[1], b[2], b[3])), port))
	} else {
		// a genuine V6 address (first segment non-zero: `to_ipv4()` is None, so it round-trips)
		let s: Vec<u16> = (0..8).map(|i| if i == 0 { 0x2001 } else { rng.next() as u16 }).collect();
		PeerAddr(SocketAddr::new(
			IpAddr::V6(Ipv6Addr::new(s[0], s[1], s[2], s[3], s[4], s[5], s[6], s[7])),
			port,
		))
	}
}

/// a header that passes `UntrustedBlockHeader::read` on AutomatedTesting (which verifies the proof of
/// work: a real cuckatoo-10 solution is mined)
fn gen_header(rng: &mut Rng) -> BlockHeader {
	gen_header_bits(rng, global::min_edge_bits())
}

/// … mined on the cuckatoo graph of `bits` edge bits: the packed proof takes `8 * bits / 8` bytes, so
/// headers of different graph sizes have different serialized lengths (257 + bits - 10 bytes)
fn gen_header_bits(rng: &mut Rng, bits: u8) -> BlockHeader {
	let height = 1000 + rng.below(1 << 30);
	let mut h = BlockHeader {
		version: HeaderVersion(5),
		height,
		prev_hash: hash32(rng),
		prev_root: hash32(rng),
		timestamp: chrono::DateTime::<Utc>::from_timestamp(1_600_000_000 + rng.below(100_000_000) as i64, 0).unwrap(),
		output_root: hash32(rng),
		range_proof_root: hash32(rng),
		kernel_root: hash32(rng),
		total_kernel_offset: BlindingFactor::from_slice(&rng.bytes(32)),
		output_mmr_size: *rng.pick(&[0u64, 1, 3, 4, 7]),
		kernel_mmr_size: *rng.pick(&[0u64, 1, 3, 4, 7]),
		pow: ProofOfWork {
			total_difficulty: Difficulty::from_num(rng.below(1 << 40)),
			secondary_scaling: rng.next() as u32,
			nonce: rng.next(),
			proof: Proof { edge_bits: 10, nonces: vec![0; 8] },
		},
	};
	grin_core::pow::pow_size(&mut h, Difficulty::from_num(1), global::proofsize(), bits).expect("mine header");
	// the solver labels its proofs with the minimum edge bits: state the graph size that was mined
	h.pow.proof.edge_bits = bits;
	grin_core::pow::verify_size(&h).expect("mined header verifies");
	h
}

/// headers with the given edge bits, in that order (a few are mined per graph size and reused)
fn sized_headers(cx: &mut Ctx, bits: &[u8]) -> Vec<BlockHeader> {
	const PER_SIZE: usize = 5;
	let mut out = vec![];
	for (i, &b) in bits.iter().enumerate() {
		if !cx.sized_pool.contains_key(&b) {
			let t0 = Instant::now();
			let v: Vec<BlockHeader> = (0..PER_SIZE).map(|_| gen_header_bits(&mut cx.rng, b)).collect();
			cx.out.raw(&format!("#STAT mined {} headers at edge bits {} ({} bytes each) in {} ms", PER_SIZE, b, sv(&v[0], 1).len(), t0.elapsed().as_millis()));
			cx.sized_pool.insert(b, v);
		}
		let pool = &cx.sized_pool[&b];
		out.push(pool[(i * 7 + cx.rng.below(PER_SIZE as u64) as usize) % PER_SIZE].clone());
	}
	out
}

/// mined headers are reused across messages (mining is the expensive part)
fn header_pool(cx: &mut Ctx, n: usize) -> Vec<BlockHeader> {
	while cx.pool.len() < n {
		let h = gen_header(&mut cx.rng);
		cx.pool.push(h);
	}
	let start = cx.rng.below((cx.pool.len() - n + 1) as u64) as usize;
	cx.pool[start..start + n].to_vec()
}

/// what was written, for the oracle: expected events without byte counts
#[derive(Clone, Debug, PartialEq)]
enum Exp {
	Body(u8, String),
	Unknown(u8),
	Headers(usize, u64, String),
	Att(usize, usize, u64),
	/// the whole attachment as conn.rs wrote it to the file (timed runs: the handler gets no bytes)
	AttSum(usize, u64),
}

fn checksum(b: &[u8]) -> u64 {
	let mut s: u64 = 0;
	for (i, x) in b.iter().enumerate() {
		s = (s + (*x as u64) * ((i as u64 % 251) + 1)) % 4294967291;
	}
	s
}

/// serialise one message through the real `write_message` (fresh tracker: no pacing delay)
fn wire(msg: &Msg) -> Vec<u8> {
	let mut v: Vec<u8> = Vec::new();
	write_message(&mut v, msg, Arc::new(Tracker::new())).unwrap();
	v
}

/// one random message: wire bytes and the events the reader must produce
fn gen_message(cx: &mut Ctx, ver: u32, kind: u64, work: &std::path::Path) -> (Vec<u8>, Vec<Exp>, String) {
	let r = &mut cx.rng;
	let v = ProtocolVersion(ver);
	macro_rules! plain {
		($t:expr, $body:expr, $name:expr) => {{
			let body = $body;
			let canon = hex(&sv(&body, ver));
			let m = Msg::new($t, body, v).unwrap();
			(wire(&m), vec![Exp::Body($t as u8, canon)], $name.to_string())
		}};
	}
	match kind {
		0 => plain!(Type::Ping, Ping { total_difficulty: Difficulty::from_num(r.next()), height: r.next() }, "Ping"),
		1 => plain!(Type::Pong, Pong { total_difficulty: Difficulty::from_num(r.next()), height: r.next() }, "Pong"),
		2 => plain!(Type::GetPeerAddrs, GetPeerAddrs { capabilities: Capabilities::from_bits_truncate(r.next() as u32) }, "GetPeerAddrs"),
		3 => {
			let n = *r.pick(&[0usize, 1, 3, 9]);
			plain!(Type::PeerAddrs, PeerAddrs { peers: (0..n).map(|_| gen_addr(r)).collect() }, "PeerAddrs")
		}
		4 => {
			let n = *r.pick(&[0usize, 1, 2, 20]);
			plain!(Type::GetHeaders, Locator { hashes: (0..n).map(|_| hash32(r)).collect() }, "GetHeaders")
		}
		5 => plain!(Type::GetBlock, hash32(r), "GetBlock"),
		6 => plain!(Type::GetCompactBlock, hash32(r), "GetCompactBlock"),
		7 => plain!(Type::GetTransaction, hash32(r), "GetTransaction"),
		8 => plain!(Type::TransactionKernel, hash32(r), "TransactionKernel"),
		9 => plain!(Type::TxHashSetRequest, TxHashSetRequest { hash: hash32(r), height: r.next() }, "TxHashSetRequest"),
		10 => {
			let reasons = [ReasonForBan::None, ReasonForBan::BadBlock, ReasonForBan::ManualBan, ReasonForBan::BadHandshake];
			plain!(Type::BanReason, BanReason { ban_reason: *r.pick(&reasons) }, "BanReason")
		}
		11 => {
			let t = *r.pick(&[Type::GetOutputBitmapSegment, Type::GetOutputSegment, Type::GetRangeProofSegment, Type::GetKernelSegment]);
			let req = SegmentRequest {
				block_hash: hash32(r),
				identifier: grin_core::core::SegmentIdentifier { height: r.below(14) as u8, idx: r.below(1 << 20) },
			};
			plain!(t, req, "SegmentRequest")
		}
		12 => {
			// unknown type byte with a body: written by hand (there is no `Type` for it)
			let t = *r.pick(&[29u8, 30, 77, 200, 255]);
			let len = *r.pick(&[0usize, 1, 5, 40, 300]);
			let body = r.bytes(len);
			let mut w = sv(&MsgHeader::new(Type::Ping, len as u64), ver);
			w[2] = t;
			w.extend_from_slice(&body);
			(w, vec![Exp::Unknown(t)], "Unknown".to_string())
		}
		13 => {
			// Headers: n >= 1 items, read back in batches of 32
			let n = *r.pick(&[0usize, 1, 2, 31, 32, 33, 64, 65]);
			let n = if n > 3 && !cx.thorough && r.chance(1, 2) { 3 } else { n };
			let hs: Vec<BlockHeader> = if n == 0 { vec![] } else { header_pool(cx, n) };
			let mut exp = vec![];
			if n == 0 {
				// the empty list (what a peer answers to GetHeaders when it has nothing newer): one empty batch
				exp.push(Exp::Headers(0, 0, hex(&[])));
			}
			let mut i = 0;
			while i < n {
				let j = (i + 32).min(n);
				let canon: Vec<u8> = hs[i..j].iter().flat_map(|h| sv(h, ver)).collect();
				exp.push(Exp::Headers(j - i, (n - j) as u64, hex(&canon)));
				i = j;
			}
			let m = Msg::new(Type::Headers, Headers { headers: hs }, v).unwrap();
			(wire(&m), exp, "Headers".to_string())
		}
		_ => {
			// TxHashSetArchive followed by the attachment bytes
			let size = *r.pick(&[0usize, 1, 100, 47_999, 48_000, 48_001, 100_000]);
			let size = if size > 1000 && !cx.thorough && r.chance(2, 3) { 777 } else { size };
			let data = r.bytes(size);
			let path = work.join(format!("att-{}.bin", r.next()));
			std::fs::write(&path, &data).unwrap();
			let body = TxHashSetArchive { hash: hash32(r), height: r.next(), bytes: size as u64 };
			let canon = hex(&sv(&body, ver));
			let mut m = Msg::new(Type::TxHashSetArchive, body, v).unwrap();
			m.add_attachment(std::fs::File::open(&path).unwrap());
			let w = wire(&m);
			let _ = std::fs::remove_file(&path);
			let mut exp = vec![Exp::Body(Type::TxHashSetArchive as u8, canon)];
			if size == 0 {
				exp.push(Exp::Att(0, 0, 0));
			}
			let mut off = 0;
			while off < size {
				let n = (size - off).min(48_000);
				exp.push(Exp::Att(n, size - off - n, checksum(&data[off..off + n])));
				off += n;
			}
			(w, exp, "TxHashSetArchive+attachment".to_string())
		}
	}
}

fn err_name(e: &grin_p2p::Error) -> String {
	use grin_p2p::Error as E;
	match e {
		E::Serialization(s) => format!(
			"Ser:{}",
			match s {
				ser::Error::IOErr(_, _) => "IOErr",
				ser::Error::UnexpectedData { .. } => "UnexpectedData",
				ser::Error::CorruptedData => "CorruptedData",
				ser::Error::CountError => "CountError",
				ser::Error::TooLargeReadErr => "TooLargeReadErr",
				ser::Error::SortError => "SortError",
				ser::Error::DuplicateError => "DuplicateError",
				ser::Error::InvalidBlockVersion => "InvalidBlockVersion",
				ser::Error::UnsupportedProtocolVersion => "UnsupportedProtocolVersion",
				_ => "Other",
			}
		),
		E::Connection(_) => "Connection".to_string(),
		E::BadMessage => "BadMessage".to_string(),
		E::UnexpectedMessage => "UnexpectedMessage".to_string(),
		E::PeerWithSelf => "PeerWithSelf".to_string(),
		E::GenesisMismatch { .. } => "GenesisMismatch".to_string(),
		E::ConnectionClose => "ConnectionClose".to_string(),
		_ => "Other".to_string(),
	}
}

fn canon_message(m: &Message, ver: u32) -> Option<(u8, String)> {
	Some(match m {
		Message::Ping(x) => (Type::Ping as u8, hex(&sv(x, ver))),
		Message::Pong(x) => (Type::Pong as u8, hex(&sv(x, ver))),
		Message::BanReason(x) => (Type::BanReason as u8, hex(&sv(x, ver))),
		Message::TransactionKernel(x) => (Type::TransactionKernel as u8, hex(&sv(x, ver))),
		Message::GetTransaction(x) => (Type::GetTransaction as u8, hex(&sv(x, ver))),
		Message::GetBlock(x) => (Type::GetBlock as u8, hex(&sv(x, ver))),
		Message::GetCompactBlock(x) => (Type::GetCompactBlock as u8, hex(&sv(x, ver))),
		Message::GetHeaders(x) => (Type::GetHeaders as u8, hex(&sv(x, ver))),
		Message::GetPeerAddrs(x) => (Type::GetPeerAddrs as u8, hex(&sv(x, ver))),
		Message::PeerAddrs(x) => (Type::PeerAddrs as u8, hex(&sv(x, ver))),
		Message::TxHashSetRequest(x) => (Type::TxHashSetRequest as u8, hex(&sv(x, ver))),
		Message::TxHashSetArchive(x) => (Type::TxHashSetArchive as u8, hex(&sv(x, ver))),
		Message::GetOutputBitmapSegment(x) => (Type::GetOutputBitmapSegment as u8, hex(&sv(x, ver))),
		Message::GetOutputSegment(x) => (Type::GetOutputSegment as u8, hex(&sv(x, ver))),
		Message::GetRangeProofSegment(x) => (Type::GetRangeProofSegment as u8, hex(&sv(x, ver))),
		Message::GetKernelSegment(x) => (Type::GetKernelSegment as u8, hex(&sv(x, ver))),
		Message::Transaction(x) => (Type::Transaction as u8, hex(&sv(x, ver))),
		Message::StemTransaction(x) => (Type::StemTransaction as u8, hex(&sv(x, ver))),
		_ => return None,
	})
}

struct RunResult {
	events: Vec<String>,
	got: Vec<Exp>,
	end: String,
	end_bytes: u64,
	end_maxreq: usize,
}

/// deliver `frags` over a fresh loopback connection (0–2 ms gaps when `gaps`), read with the real codec
fn run_codec(ver: u32, frags: &[Vec<u8>], gaps: &[u64]) -> RunResult {
	let listener = TcpListener::bind("127.0.0.1:0").unwrap();
	let addr = listener.local_addr().unwrap();
	let frags_w: Vec<Vec<u8>> = frags.to_vec();
	let gaps_w: Vec<u64> = gaps.to_vec();
	let writer = std::thread::spawn(move || {
		let mut s = TcpStream::connect(addr).unwrap();
		s.set_nodelay(true).unwrap();
		for (i, f) in frags_w.iter().enumerate() {
			if s.write_all(f).is_err() {
				break;
			}
			let _ = s.flush();
			let g = gaps_w.get(i).copied().unwrap_or(0);
			if g > 0 {
				std::thread::sleep(std::time::Duration::from_micros(g));
			}
		}
		let _ = s.shutdown(Shutdown::Write);
		// keep the socket open until the reader is done (it closes its end)
		let mut sink = [0u8; 16];
		let _ = s.read(&mut sink);
	});
	let (stream, _) = listener.accept().unwrap();
	let mut codec = Codec::new(ProtocolVersion(ver), stream.try_clone().unwrap());
	let mut res = RunResult { events: vec![], got: vec![], end: String::new(), end_bytes: 0, end_maxreq: 0 };
	loop {
		MAX_REQ.store(0, Ordering::Relaxed);
		let (next, bytes_read) = match std::panic::catch_unwind(std::panic::AssertUnwindSafe(|| codec.read())) {
			Ok(x) => x,
			Err(_) => {
				res.end = "panic".to_string();
				break;
			}
		};
		let maxreq = MAX_REQ.load(Ordering::Relaxed);
		match next {
			Ok(Message::Unknown(t)) => {
				res.events.push(format!("unknown:{}:{}", t, bytes_read));
				res.got.push(Exp::Unknown(t));
			}
			Ok(Message::Headers(d)) => {
				let canon: Vec<u8> = d.headers.iter().flat_map(|h| sv(h, ver)).collect();
				res.events.push(format!("headers:{}:{}:{}:{}", d.headers.len(), d.remaining, hex(&canon), bytes_read));
				res.got.push(Exp::Headers(d.headers.len(), d.remaining, hex(&canon)));
			}
			Ok(Message::Attachment(up, bytes)) => {
				let b = bytes.map(|b| b.to_vec()).unwrap_or_default();
				res.events.push(format!("att:{}:{}:{}:{}", up.read, up.left, checksum(&b), bytes_read));
				res.got.push(Exp::Att(up.read, up.left, checksum(&b)));
			}
			Ok(m) => {
				if let Message::TxHashSetArchive(a) = &m {
					// what `Protocol::consume` answers when a state sync was requested
					codec.expect_attachment(Arc::new(AttachmentMeta {
						size: a.bytes as usize,
						hash: a.hash,
						height: a.height,
						start_time: Utc::now(),
						path: std::path::PathBuf::new(),
					}));
				}
				match ext::canon_any(m, ver) {
					Some((t, c)) => {
						res.events.push(format!("body:{}:{}:{}", t, c, bytes_read));
						res.got.push(Exp::Body(t, c));
					}
					None => res.events.push(format!("other:{}", bytes_read)),
				}
			}
			Err(e) => {
				res.end = err_name(&e);
				res.end_bytes = bytes_read;
				res.end_maxreq = maxreq;
				break;
			}
		}
	}
	let _ = codec.stream().shutdown(Shutdown::Both);
	drop(stream);
	let _ = writer.join();
	res
}

fn split_at_points(stream: &[u8], points: &[usize]) -> Vec<Vec<u8>> {
	let mut v = vec![];
	let mut last = 0;
	for &p in points {
		v.push(stream[last..p].to_vec());
		last = p;
	}
	v.push(stream[last..].to_vec());
	v
}

fn emit_run(cx: &mut Ctx, ver: u32, frags: &[Vec<u8>], r: &RunResult, with_maxreq: bool) {
	let mut evs = r.events.clone();
	if r.end == "panic" {
		evs.push("panic".to_string());
	} else if with_maxreq {
		evs.push(format!("end:{}:{}:{}", r.end, r.end_bytes, r.end_maxreq));
	} else {
		evs.push(format!("end:{}:{}", r.end, r.end_bytes));
	}
	cx.out.line(&format!("codec run {} {}", ver, hex_list(frags)), &format!("[{}]", evs.join(";")));
}

/// sequences of well-formed messages under every single split point / random multi-splits
fn faithful(cx: &mut Ctx, work: &std::path::Path) {
	let nseq = if cx.thorough { 75 } else { 18 };
	for si in 0..nseq {
		let ver = VERSIONS[si % 4];
		let nmsg = 1 + cx.rng.below(4) as usize;
		let mut stream: Vec<u8> = vec![];
		let mut exp: Vec<Exp> = vec![];
		let mut names = vec![];
		for mi in 0..nmsg {
			// make sure every kind appears: first message of sequence `si` is kind `si % 15`
			let kind = if mi == 0 { (si % 15) as u64 } else { cx.rng.below(15) };
			let (w, e, name) = gen_message(cx, ver, kind, work);
			stream.extend_from_slice(&w);
			exp.extend(e);
			names.push(name);
		}
		for n in &names {
			cx.stat(&format!("sent {}", n));
		}
		deliver_plans(cx, ver, &stream, &exp, &names, &[]);
	}
}

/// deliver one stream to the real Codec unfragmented, cut at every single split point (short streams) or
/// inside the first frame header plus a sample (long ones), at the `extra` points, with random multi-splits
/// and byte by byte (very short ones); oracle: exactly `exp` is read, then end of stream
fn deliver_plans(cx: &mut Ctx, ver: u32, stream: &[u8], exp: &[Exp], names: &[String], extra: &[usize]) {
	deliver_plans_at(cx, ver, stream, exp, names, extra, cx.thorough)
}

fn deliver_plans_at(cx: &mut Ctx, ver: u32, stream: &[u8], exp: &[Exp], names: &[String], extra: &[usize], dense: bool) {
	cx.stat(&format!("stream length bucket 2^{}", 64 - (stream.len() as u64).leading_zeros()));
	let mut plans: Vec<Vec<usize>> = vec![vec![]];
	for &p in extra {
		if p > 0 && p < stream.len() {
			plans.push(vec![p]);
		}
	}
	if stream.len() <= if dense { 1500 } else { 260 } {
		// EVERY single split point
		for p in 1..stream.len() {
			plans.push(vec![p]);
		}
		cx.stat("streams cut at every single split point");
	} else {
		// all split points inside the first frame header, then a sample
		for p in 1..12.min(stream.len()) {
			plans.push(vec![p]);
		}
		for _ in 0..(if dense { 40 } else { 8 }) {
			plans.push(vec![1 + cx.rng.below(stream.len() as u64 - 1) as usize]);
		}
	}
	// random multi-splits (incl. byte-by-byte for short streams)
	for _ in 0..(if dense { 12 } else { 4 }) {
		let k = 2 + cx.rng.below(12) as usize;
		let mut ps: Vec<usize> = (0..k).map(|_| 1 + cx.rng.below(stream.len() as u64 - 1) as usize).collect();
		ps.sort_unstable();
		ps.dedup();
		plans.push(ps);
	}
	if stream.len() <= 120 {
		plans.push((1..stream.len()).collect());
		cx.stat("streams delivered byte by byte");
	}
	for (pi, ps) in plans.iter().enumerate() {
		let frags = split_at_points(&stream, ps);
		let gaps: Vec<u64> = (0..frags.len())
			.map(|_| if ps.len() <= 1 { 300 } else { cx.rng.below(2001) })
			.collect();
		let r = run_codec(ver, &frags, &gaps);
		cx.stat(&format!("fragments per stream: {}", if frags.len() > 8 { ">8".to_string() } else { frags.len().to_string() }));
		if r.got != exp || r.end != "Connection" {
			cx.fails += 1;
			cx.out.raw(&format!(
				"#ORACLE-FAIL C19 sequence read differs from sequence written: version {} messages {:?} fragments {} read {:?} end {} expected {:?}",
				ver, names, hex_list(&frags).chars().take(600).collect::<String>(), r.got.iter().map(|e| format!("{:?}", e).chars().take(60).collect::<String>()).collect::<Vec<_>>(), r.end,
				exp.iter().map(|e| format!("{:?}", e).chars().take(60).collect::<String>()).collect::<Vec<_>>()
			));
		}
		// the model line: all plans for short streams, a sample for long ones
		if stream.len() <= 3000 || pi < 3 {
			emit_run(cx, ver, &frags, &r, false);
		}
	}
}

/// `Headers` lists whose headers have DIFFERENT serialized sizes (the size depends on the edge bits of the
/// proof; every header is really mined on its graph size), crossing the batches of 32, followed by a Ping
fn headers_mixed(cx: &mut Ctx) {
	let sizes: Vec<u8> = if cx.thorough { vec![10, 11, 12, 13, 14, 16, 17, 18] } else { vec![10, 11, 12, 13, 14, 16] };
	let big = *sizes.last().unwrap();
	let lens: Vec<usize> = if cx.thorough { (1..=75).collect() } else { vec![1, 2, 3, 31, 32, 33, 34, 63, 64, 65, 75] };
	for (li, &n) in lens.iter().enumerate() {
		let patterns: Vec<usize> = if cx.thorough { vec![0, 1, 2, 3] } else { vec![li % 4, (li + 1) % 4] };
		for pat in patterns {
			let bits: Vec<u8> = (0..n)
				.map(|i| match pat {
					0 => if i < (n + 1) / 2 { big } else { 10 },          // big then small
					1 => if i < n / 2 { 10 } else { big },                // small then big
					2 => *cx.rng.pick(&sizes),                            // mixed
					_ => if i == (li * 5) % n { big } else { 10 },        // one odd one out
				})
				.collect();
			let pname = ["big-then-small", "small-then-big", "mixed", "one-odd"][pat];
			let ver = VERSIONS[(li + pat) % 4];
			let hs = sized_headers(cx, &bits);
			let item_lens: Vec<usize> = hs.iter().map(|h| sv(h, ver).len()).collect();
			let mut exp = vec![];
			let mut i = 0;
			while i < n {
				let j = (i + 32).min(n);
				let canon: Vec<u8> = hs[i..j].iter().flat_map(|h| sv(h, ver)).collect();
				exp.push(Exp::Headers(j - i, (n - j) as u64, hex(&canon)));
				i = j;
			}
			let mut stream = wire(&Msg::new(Type::Headers, Headers { headers: hs }, ProtocolVersion(ver)).unwrap());
			let ping = Ping { total_difficulty: Difficulty::from_num(cx.rng.next()), height: cx.rng.next() };
			exp.push(Exp::Body(Type::Ping as u8, hex(&sv(&ping, ver))));
			stream.extend_from_slice(&wire(&Msg::new(Type::Ping, ping, ProtocolVersion(ver)).unwrap()));
			// cut at the item boundaries where the size changes, around the batch boundaries and at the end of the list
			let mut extra = vec![];
			let mut off = 13;
			for (k, l) in item_lens.iter().enumerate() {
				off += l;
				if k + 1 == n || k + 1 == 32 || k + 1 == 64 || (k + 1 < n && item_lens[k + 1] != *l) {
					extra.push(off);
					if extra.len() > 10 {
						break;
					}
				}
			}
			let distinct: std::collections::BTreeSet<usize> = item_lens.iter().cloned().collect();
			cx.stat(&format!("mixed-size Headers lists: pattern {}", pname));
			cx.stat(&format!("mixed-size Headers lists: {} distinct header sizes", distinct.len()));
			let names = vec![format!("Headers({}, {}, sizes {:?})", n, pname, distinct), "Ping".to_string()];
			deliver_plans_at(cx, ver, &stream, &exp, &names, &extra, false);
		}
	}
}

/// frame headers that must be refused: wrong magic, over-limit lengths per type, inconsistent counts
fn refusals(cx: &mut Ctx) {
	let mbs: u64 = global::max_block_weight() / 21 * 708;
	let limits: Vec<(u8, u64)> = vec![
		(0, 0), (1, 128), (2, 88), (3, 16), (4, 16), (5, 4), (6, 4 + 19 * 256), (7, 1 + 32 * 20), (8, 365), (9, 2 + 365 * 512),
		(10, 32), (11, mbs), (12, 32), (13, mbs / 10), (14, mbs), (15, mbs), (16, 40), (17, 64), (18, 64), (19, 32), (20, 32),
		(21, 41), (22, 2 * mbs), (23, 41), (24, 2 * mbs), (25, 41), (26, 2 * mbs), (27, 41), (28, 2 * mbs), (29, mbs), (200, mbs), (255, mbs),
	];
	for (t, lim) in limits {
		for len in [4 * lim + 1, 4 * lim + 2, u64::MAX, 1 << 63, 1 << 32] {
			if len <= 4 * lim {
				continue;
			}
			let mut w = vec![73u8, 43, t];
			w.extend_from_slice(&len.to_be_bytes());
			// the announced body does not follow: 40 bytes of junk do
			w.extend_from_slice(&cx.rng.bytes(40));
			let ver = VERSIONS[(t as usize) % 4];
			let r = run_codec(ver, &[w.clone()], &[0]);
			cx.stat("over-limit frame headers");
			if r.end != "Ser:TooLargeReadErr" || r.end_bytes != 11 || r.end_maxreq > 65536 || !r.events.is_empty() {
				cx.fails += 1;
				cx.out.raw(&format!(
					"#ORACLE-FAIL C19 over-limit frame (type {} len {}) not refused at the header: end {} bytes_read {} maxreq {} stream {}",
					t, len, r.end, r.end_bytes, r.end_maxreq, hex(&w)
				));
			}
			emit_run(cx, ver, &[w], &r, true);
		}
		// at the limit and just below: accepted at the header (then the body is short / junk)
		// (not for Header / CompactBlock: a junk body of a payload kind is a decoder matter - C11 - and the model
		// of these lines delivers payload bodies as opaque bytes; acceptance AT the limit is checked for every
		// type, header only, by `ext::limits_sweep`)
		if lim > 0 && lim * 4 <= 4096 && t != 8 && t != 13 {
			let len = 4 * lim;
			let mut w = vec![73u8, 43, t];
			w.extend_from_slice(&len.to_be_bytes());
			w.extend_from_slice(&cx.rng.bytes(len as usize));
			let r = run_codec(1, &[w.clone()], &[0]);
			cx.stat("at-limit frame headers");
			emit_run(cx, 1, &[w], &r, false);
		}
	}
	// wrong magic (mainnet / testnet magic on this AutomatedTesting node, single-byte flips)
	for (a, b) in [(97u8, 61u8), (83, 59), (73, 44), (72, 43), (0, 0), (43, 73)] {
		let mut w = vec![a, b, 3];
		w.extend_from_slice(&16u64.to_be_bytes());
		w.extend_from_slice(&cx.rng.bytes(16));
		let r = run_codec(1, &[w.clone()], &[0]);
		cx.stat("wrong-magic frame headers");
		if r.end != "Ser:UnexpectedData" || r.end_bytes != 11 || !r.events.is_empty() || r.end_maxreq > 65536 {
			cx.fails += 1;
			cx.out.raw(&format!("#ORACLE-FAIL C19 wrong magic not refused at the header: end {} bytes_read {} stream {}", r.end, r.end_bytes, hex(&w)));
		}
		emit_run(cx, 1, &[w], &r, true);
	}
	// Hand / Shake / Error / Headers-through-decode: UnexpectedMessage
	for t in [0u8, 1, 2] {
		let mut w = vec![73u8, 43, t];
		w.extend_from_slice(&0u64.to_be_bytes());
		let r = run_codec(1, &[w.clone()], &[0]);
		cx.stat("handshake-only types sent to the codec");
		emit_run(cx, 1, &[w], &r, false);
	}
}

/// `Headers` frames whose item count is inconsistent with the frame length
fn headers_inconsistent(cx: &mut Ctx) {
	let ver = 1;
	let hs: Vec<BlockHeader> = header_pool(cx, 5);
	let items: Vec<Vec<u8>> = hs.iter().map(|h| sv(h, ver)).collect();
	// (announced count, number of items actually present, trailing junk bytes)
	let cases: Vec<(u16, usize, usize)> = vec![
		(0, 0, 0), // the empty list: refused (recorded finding)
		(0, 1, 0),
		(0, 3, 0),
		(1, 0, 0),
		(2, 1, 0),
		(5, 3, 0),
		(1, 2, 0),
		(3, 5, 0),
		(2, 2, 7),
		(1, 1, 1),
		(65535, 2, 0),
	];
	for (count, present, junk) in cases {
		let mut body = count.to_be_bytes().to_vec();
		for it in items.iter().take(present) {
			body.extend_from_slice(it);
		}
		body.extend_from_slice(&cx.rng.bytes(junk));
		let mut w = sv(&MsgHeader::new(Type::Headers, body.len() as u64), ver);
		let frame_len = w.len() + body.len();
		w.extend_from_slice(&body);
		// a well-formed Ping follows: it must not be consumed as part of the refused frame
		w.extend_from_slice(&wire(&Msg::new(Type::Ping, Ping { total_difficulty: Difficulty::from_num(1), height: 2 }, ProtocolVersion(ver)).unwrap()));
		let r = run_codec(ver, &[w.clone()], &[0]);
		cx.stat("Headers frames with inconsistent count");
		let total: u64 = r.events.iter().map(|e| e.rsplit(':').next().unwrap().parse::<u64>().unwrap_or(0)).sum::<u64>() + r.end_bytes;
		let consistent = count as usize == present && junk == 0;
		if consistent {
			// read as written: the batches, then the Ping behind it, then end of stream
			let batches: Vec<String> = r.events.iter().filter(|e| e.starts_with("headers:")).map(|e| e.split(':').take(3).collect::<Vec<_>>().join(":")).collect();
			let want = vec![format!("headers:{}:0", count)];
			if batches != want || r.events.len() != 2 || r.end != "Connection" {
				cx.fails += 1;
				cx.out.raw(&format!("#ORACLE-FAIL C19 consistent Headers frame (count {} = items present) not read as written: batches {:?} events {} end {} stream {}", count, batches, r.events.len(), r.end, hex(&w).chars().take(400).collect::<String>()));
			}
		}
		if !consistent && (r.end != "BadMessage" && !r.end.starts_with("Ser:")) {
			cx.fails += 1;
			cx.out.raw(&format!("#ORACLE-FAIL C19 inconsistent Headers frame (count {} present {} junk {}) not refused: end {} stream {}", count, present, junk, r.end, hex(&w)));
		}
		if !consistent && total > frame_len as u64 {
			cx.fails += 1;
			cx.out.raw(&format!("#ORACLE-FAIL C19 inconsistent Headers frame read beyond msg_len: {} > {} stream {}", total, frame_len, hex(&w)));
		}
		if count == 0 && present == 0 {
			if r.end == "BadMessage" && r.events.is_empty() {
				cx.out.raw(&format!(
					"#KNOWN-PROBE C19 empty-headers-refused a well-formed empty Headers message (count 0, msg_len 2: what a peer answers to GetHeaders when it has nothing newer) is refused by the codec with BadMessage (connection dropped); stream {}",
					hex(&w)
				));
			} else {
				cx.out.raw(&format!("#STAT regression probe empty-headers-refused: repaired behaviour confirmed (the empty Headers message is delivered: events {:?}, end {})", r.events.iter().map(|e| e.chars().take(30).collect::<String>()).collect::<Vec<_>>(), r.end));
			}
		}
		if count == 0 && present > 0 {
			// repaired in /repo 8eb131841: refused before any item is decoded or delivered
			if !r.events.is_empty() || r.end != "BadMessage" {
				cx.fails += 1;
				cx.out.raw(&format!("#ORACLE-FAIL C19 regression of repaired defect headers-count-zero-wrap: count 0 with {} items gave events {:?} end {}", present, r.events.iter().map(|e| e.chars().take(40).collect::<String>()).collect::<Vec<_>>(), r.end));
			}
		}
		// no delivered batch may carry a wrapped `remaining`
		for e in r.events.iter().filter(|e| e.starts_with("headers:")) {
			let rem: u64 = e.split(':').nth(2).and_then(|x| x.parse().ok()).unwrap_or(u64::MAX);
			if rem > 65535 {
				cx.fails += 1;
				cx.out.raw(&format!("#ORACLE-FAIL C19 a header batch with remaining = {} was delivered (count {} present {}): stream {}", rem, count, present, hex(&w).chars().take(400).collect::<String>()));
			}
		}
		emit_run(cx, ver, &[w], &r, false);
	}
	// count = 0 with 33 items: before 8eb131841 a full batch of 32 was delivered (remaining = 2^64-32)
	let many: Vec<Vec<u8>> = header_pool(cx, 33).iter().map(|h| sv(h, ver)).collect();
	let mut body = 0u16.to_be_bytes().to_vec();
	for it in &many {
		body.extend_from_slice(it);
	}
	let mut w = sv(&MsgHeader::new(Type::Headers, body.len() as u64), ver);
	w.extend_from_slice(&body);
	let r = run_codec(ver, &[w.clone()], &[0]);
	let batches: Vec<String> = r.events.iter().filter(|e| e.starts_with("headers:")).map(|e| e.split(':').take(3).collect::<Vec<_>>().join(":")).collect();
	if !batches.is_empty() || r.end != "BadMessage" {
		cx.fails += 1;
		cx.out.raw(&format!(
			"#ORACLE-FAIL C19 regression of repaired defect headers-count-zero-wrap: a Headers frame announcing 0 items but carrying 33 delivered {:?} and ended with {}",
			batches, r.end
		));
	} else {
		cx.out.raw("#STAT regression probe headers-count-zero-wrap: repaired behaviour confirmed (count 0 with 33 items: no batch delivered, BadMessage)");
	}
	emit_run(cx, ver, &[w], &r, false);
}

// ---------------------------------------------------------------------------------------------
// handshake

fn hs_pair() -> (TcpStream, TcpStream) {
	let l = TcpListener::bind("127.0.0.1:0").unwrap();
	let a = TcpStream::connect(l.local_addr().unwrap()).unwrap();
	let (b, _) = l.accept().unwrap();
	(a, b)
}

fn handshakes(cx: &mut Ctx) {
	let g1 = Hash::from_vec(&[7u8; 32]);
	let g2 = Hash::from_vec(&[9u8; 32]);
	let caps = Capabilities::default();
	let self_addr = PeerAddr("127.0.0.1:3414".parse().unwrap());
	// 1. two real Handshakes (both speak the local version)
	for (ga, gb) in [(g1, g1), (g1, g2)] {
		let (mut a, mut b) = hs_pair();
		let t = std::thread::spawn(move || {
			global::set_local_chain_type(ChainTypes::AutomatedTesting);
			let hb = Handshake::new(gb, P2PConfig::default());
			hb.accept(caps, Difficulty::from_num(5), &mut b).map(|i| i.version.value())
		});
		let ha = Handshake::new(ga, P2PConfig::default());
		let ra = ha.initiate(caps, Difficulty::from_num(3), self_addr, &mut a).map(|i| i.version.value());
		let rb = t.join().unwrap();
		let same = ga == gb;
		cx.stat("real Handshake pairs");
		let ok = if same { matches!(ra, Ok(1000)) && matches!(rb, Ok(1000)) } else { matches!(rb, Err(grin_p2p::Error::GenesisMismatch { .. })) && ra.is_err() };
		if !ok {
			cx.fails += 1;
			cx.out.raw(&format!("#ORACLE-FAIL C19 handshake between two real Handshakes (same genesis: {}): initiate {:?} accept {:?}", same, ra.map_err(|e| err_name(&e)), rb.map_err(|e| err_name(&e))));
		}
	}
	// 2. self connection: the same Handshake on both ends
	{
		let (mut a, mut b) = hs_pair();
		let hs = Arc::new(Handshake::new(g1, P2PConfig::default()));
		let hs2 = hs.clone();
		let t = std::thread::spawn(move || {
			global::set_local_chain_type(ChainTypes::AutomatedTesting);
			hs2.accept(caps, Difficulty::from_num(5), &mut b).map(|i| i.version.value())
		});
		let ra = hs.initiate(caps, Difficulty::from_num(3), self_addr, &mut a).map(|i| i.version.value());
		let rb = t.join().unwrap();
		cx.stat("self connections");
		let rbs = match &rb {
			Ok(v) => format!("ok {}", v),
			Err(e) => format!("err {}", err_name(e)),
		};
		if !matches!(rb, Err(grin_p2p::Error::PeerWithSelf)) || ra.is_ok() {
			cx.fails += 1;
			cx.out.raw(&format!("#ORACLE-FAIL C19 self connection not refused: accept {} initiate ok={}", rbs, ra.is_ok()));
		}
		cx.out.line("codec hs self", &rbs);
	}
	// 2b. self connection over a socket whose peer IP differs from its local IP (multi-homed host, wildcard
	//     listener, NAT hairpin): the listener is bound to 0.0.0.0, the node dials 127.0.0.2 / 127.0.0.3 / 127.1.2.3
	//     (all of 127/8 is routed to lo, the source stays 127.0.0.1): the nonce is the node's own whatever the
	//     addresses are. Control: ANOTHER Handshake instance behind the same address pair is accepted.
	for (ti, target) in ["127.0.0.2", "127.0.0.3", "127.1.2.3", "127.0.0.1", "127.255.255.254"].iter().enumerate() {
		for same_node in [true, false] {
			let l = match TcpListener::bind("0.0.0.0:0") {
				Ok(l) => l,
				Err(e) => {
					cx.out.raw(&format!("#STAT self connection over differing addresses: cannot bind 0.0.0.0 ({})", e));
					continue;
				}
			};
			let port = l.local_addr().unwrap().port();
			let mut a = match TcpStream::connect((*target, port)) {
				Ok(a) => a,
				Err(e) => {
					cx.out.raw(&format!("#STAT self connection over differing addresses: {} not reachable here ({})", target, e));
					continue;
				}
			};
			let (mut b, _) = l.accept().unwrap();
			let addrs = format!(
				"dialled {}:{}; accepted socket local {} peer {}; dialling socket local {} peer {}",
				target, port,
				b.local_addr().map(|x| x.to_string()).unwrap_or_default(), b.peer_addr().map(|x| x.to_string()).unwrap_or_default(),
				a.local_addr().map(|x| x.to_string()).unwrap_or_default(), a.peer_addr().map(|x| x.to_string()).unwrap_or_default()
			);
			let differs = b.local_addr().map(|x| x.ip()).ok() != b.peer_addr().map(|x| x.ip()).ok();
			let hs = Arc::new(Handshake::new(g1, P2PConfig::default()));
			let hs_acc = if same_node { hs.clone() } else { Arc::new(Handshake::new(g1, P2PConfig::default())) };
			// the address the node advertises as its own: its listening port on yet another of its addresses
			let advertised = PeerAddr(format!("{}:{}", ["127.0.0.1", "10.1.2.3", "192.168.7.7"][ti % 3], port).parse().unwrap());
			let t = std::thread::spawn(move || {
				global::set_local_chain_type(ChainTypes::AutomatedTesting);
				hs_acc.accept(caps, Difficulty::from_num(5), &mut b).map(|i| i.version.value())
			});
			let ra = hs.initiate(caps, Difficulty::from_num(3), advertised, &mut a).map(|i| i.version.value());
			let rb = t.join().unwrap();
			let rbs = match &rb {
				Ok(v) => format!("ok {}", v),
				Err(e) => format!("err {}", err_name(e)),
			};
			cx.stat(&format!("self connections over a socket with {} local and peer IP ({})", if differs { "DIFFERENT" } else { "equal" }, if same_node { "same Handshake on both ends" } else { "control: another node accepts" }));
			if same_node {
				if !matches!(rb, Err(grin_p2p::Error::PeerWithSelf)) || ra.is_ok() {
					cx.fails += 1;
					cx.out.raw(&format!("#ORACLE-FAIL C19 connection to itself over a socket whose peer IP differs from its local IP not refused: accept {} initiate ok={} ({})", rbs, ra.is_ok(), addrs));
				}
				cx.out.line("codec hs self", &rbs);
			} else {
				if !matches!(rb, Ok(1000)) || !matches!(ra, Ok(1000)) {
					cx.fails += 1;
					cx.out.raw(&format!("#ORACLE-FAIL C19 another node behind the same address pair was not accepted: accept {} initiate {:?} ({})", rbs, ra.as_ref().map_err(|e| err_name(e)), addrs));
				}
				cx.out.line("codec hs other", &rbs);
			}
			cx.out.raw(&format!("#STAT self connection over differing addresses ({}): {} -> accept {}", if same_node { "own nonce" } else { "another node" }, addrs, rbs));
		}
	}
	// 3. a scripted peer with every version against the real accept / initiate
	let versions: Vec<u32> = vec![0, 1, 2, 3, 999, 1000, 1001, u32::MAX];
	for &pv in &versions {
		for (our_g, their_g) in [(g1, g1), (g1, g2)] {
			for wire_ver in [1u32, 1000] {
				// real accept <- scripted Hand
				let hand = Hand {
					version: ProtocolVersion(pv),
					capabilities: Capabilities::from_bits_truncate(cx.rng.next() as u32),
					nonce: cx.rng.next(),
					genesis: their_g,
					total_difficulty: Difficulty::from_num(cx.rng.below(1 << 40)),
					sender_addr: gen_addr(&mut cx.rng),
					receiver_addr: gen_addr(&mut cx.rng),
					user_agent: "verif/1".to_string(),
				};
				let bytes = wire(&Msg::new(Type::Hand, hand, ProtocolVersion(wire_ver)).unwrap());
				let r = scripted_accept(our_g, &bytes);
				let expect_ok = our_g == their_g;
				let want = pv.min(1000);
				cx.stat("scripted Hand -> real accept");
				match (&r, expect_ok) {
					(Ok(v), true) if *v == want => {}
					(Err(e), false) if e == "GenesisMismatch" => {}
					_ => {
						cx.fails += 1;
						cx.out.raw(&format!("#ORACLE-FAIL C19 accept: peer version {} genesis-equal {} gave {:?}, expected {}", pv, expect_ok, r, if expect_ok { format!("ok {}", want) } else { "GenesisMismatch".into() }));
					}
				}
				let rs = match &r {
					Ok(v) => format!("ok {}", v),
					Err(e) => format!("err {}", e),
				};
				cx.out.line(&format!("codec hs accept {} {}", hex(our_g.as_bytes()), hex(&bytes)), &rs);
				// real initiate <- scripted Shake
				let shake = Shake {
					version: ProtocolVersion(pv),
					capabilities: Capabilities::from_bits_truncate(cx.rng.next() as u32),
					genesis: their_g,
					total_difficulty: Difficulty::from_num(cx.rng.below(1 << 40)),
					user_agent: "verif/1".to_string(),
				};
				let bytes = wire(&Msg::new(Type::Shake, shake, ProtocolVersion(wire_ver)).unwrap());
				let r = scripted_initiate(our_g, &bytes);
				cx.stat("scripted Shake -> real initiate");
				match (&r, expect_ok) {
					(Ok(v), true) if *v == want => {}
					(Err(e), false) if e == "GenesisMismatch" => {}
					_ => {
						cx.fails += 1;
						cx.out.raw(&format!("#ORACLE-FAIL C19 initiate: peer version {} genesis-equal {} gave {:?}", pv, expect_ok, r));
					}
				}
				let rs = match &r {
					Ok(v) => format!("ok {}", v),
					Err(e) => format!("err {}", e),
				};
				cx.out.line(&format!("codec hs initiate {} {}", hex(our_g.as_bytes()), hex(&bytes)), &rs);
			}
		}
	}
	// 4. malformed first frames against the real accept: wrong magic, wrong type, over-limit, unknown type, short body
	let good = wire(&Msg::new(
		Type::Hand,
		Hand {
			version: ProtocolVersion(2),
			capabilities: caps,
			nonce: 77,
			genesis: g1,
			total_difficulty: Difficulty::from_num(1),
			sender_addr: self_addr,
			receiver_addr: self_addr,
			user_agent: "x".to_string(),
		},
		ProtocolVersion(1),
	).unwrap());
	let mut variants: Vec<Vec<u8>> = vec![];
	let mut v = good.clone(); v[0] = 97; v[1] = 61; variants.push(v);
	let mut v = good.clone(); v[2] = 2; variants.push(v);
	let mut v = good.clone(); v[2] = 3; variants.push(v);
	let mut v = good.clone(); v[2] = 99; variants.push(v);
	let mut v = good.clone(); v[3..11].copy_from_slice(&513u64.to_be_bytes()); variants.push(v);
	let mut v = good.clone(); v[3..11].copy_from_slice(&512u64.to_be_bytes()); variants.push(v);
	let mut v = good.clone(); v[3..11].copy_from_slice(&u64::MAX.to_be_bytes()); variants.push(v);
	let mut v = good.clone(); v[3..11].copy_from_slice(&5u64.to_be_bytes()); variants.push(v);
	variants.push(good[..7].to_vec());
	variants.push(good[..good.len() - 3].to_vec());
	let mut v = good.clone(); let n = v.len(); v[n - 40] ^= 0xff; variants.push(v); // user agent / genesis area
	for bytes in variants {
		let r = scripted_accept(g1, &bytes);
		cx.stat("malformed first frames -> real accept");
		let rs = match &r {
			Ok(v) => format!("ok {}", v),
			Err(e) => format!("err {}", e),
		};
		cx.out.line(&format!("codec hs accept {} {}", hex(g1.as_bytes()), hex(&bytes)), &rs);
	}
}

// ---------------------------------------------------------------------------------------------
// user agents made of multi-byte UTF-8 characters through the real Handshake::accept / initiate

/// the first `len` bytes of: `prefix` ASCII bytes, then the `k`-byte character repeated — so that, over
/// all (prefix, len), every byte offset of the string is inside a multi-byte character in some input
/// and the string ends inside a character whenever `(len - prefix) % k != 0`
fn utf8_agent_bytes(k: usize, prefix: usize, len: usize) -> Vec<u8> {
	let ch: &str = ["a", "é", "€", "😀"][k - 1];
	let mut b: Vec<u8> = vec![b'x'; prefix];
	while b.len() < len + 4 {
		b.extend_from_slice(ch.as_bytes());
	}
	b.truncate(len);
	b
}

fn utf8_user_agents(cx: &mut Ctx) {
	let g = Hash::from_vec(&[7u8; 32]);
	let self_addr = PeerAddr("127.0.0.1:3414".parse().unwrap());
	let mut lens: Vec<usize> = (0..=if cx.thorough { 70 } else { 24 }).collect();
	lens.extend_from_slice(&[63, 64, 65, 127, 128, 129, 255, 256, 257, 300, 400, 420]);
	lens.sort_unstable();
	lens.dedup();
	let base_hand = sv(
		&Hand {
			version: ProtocolVersion(3),
			capabilities: Capabilities::default(),
			nonce: 4711,
			genesis: g,
			total_difficulty: Difficulty::from_num(1),
			sender_addr: self_addr,
			receiver_addr: self_addr,
			user_agent: String::new(),
		},
		1,
	);
	let base_shake = sv(&Shake { version: ProtocolVersion(3), capabilities: Capabilities::default(), genesis: g, total_difficulty: Difficulty::from_num(1), user_agent: String::new() }, 1);
	// the empty user agent is the 8 zero bytes of its length prefix, in front of the 32-byte genesis hash
	let splice = |base: &[u8], ua: &[u8]| -> Vec<u8> {
		let at = base.len() - 32 - 8;
		let mut b = base[..at].to_vec();
		b.extend_from_slice(&(ua.len() as u64).to_be_bytes());
		b.extend_from_slice(ua);
		b.extend_from_slice(&base[base.len() - 32..]);
		b
	};
	for &len in &lens {
		for k in 1..=4usize {
			for prefix in 0..4usize {
				if prefix > len || (!cx.thorough && len > 24 && prefix != len % 4) {
					continue;
				}
				let ua = utf8_agent_bytes(k, prefix, len);
				let valid = std::str::from_utf8(&ua).is_ok();
				for accept in [true, false] {
					let body = splice(if accept { &base_hand } else { &base_shake }, &ua);
					let t = if accept { Type::Hand } else { Type::Shake };
					if body.len() as u64 > if accept { 512 } else { 352 } {
						continue;
					}
					let mut bytes = sv(&MsgHeader::new(t, body.len() as u64), 1);
					bytes.extend_from_slice(&body);
					let b2 = bytes.clone();
					let r = catch(std::panic::AssertUnwindSafe(move || if accept { scripted_accept(g, &b2) } else { scripted_initiate(g, &b2) }));
					cx.stat(&format!("utf8 user agents ({}-byte characters) through Handshake::{}", k, if accept { "accept" } else { "initiate" }));
					let rs = match &r {
						Ok(Ok(v)) => format!("ok {}", v),
						Ok(Err(e)) => format!("err {}", e),
						Err(_) => "panic".to_string(),
					};
					let want = if valid { "ok 3".to_string() } else { "err Ser:CorruptedData".to_string() };
					if r.is_err() {
						cx.fails += 1;
						let txt = format!("Handshake::{} panicked on a user agent of {} bytes ({} ASCII bytes, then {}-byte characters, valid UTF-8: {}): stream {}", if accept { "accept" } else { "initiate" }, len, prefix, k, valid, hex(&bytes));
						cx.out.raw(&format!("#ORACLE-FAIL C11 utf8-user-agent-panics-handshake {}", txt));
						cx.out.raw(&format!("#ORACLE-FAIL C19 utf8-user-agent-panics-handshake {}", txt));
					} else if rs != want {
						cx.fails += 1;
						cx.out.raw(&format!("#ORACLE-FAIL C19 handshake with a user agent of {} bytes ({} ASCII, {}-byte characters, valid UTF-8: {}) gave {} instead of {}: stream {}", len, prefix, k, valid, rs, want, hex(&bytes)));
					}
					cx.out.line(&format!("codec hs {} {} {}", if accept { "accept" } else { "initiate" }, hex(g.as_bytes()), hex(&bytes)), &rs);
				}
			}
		}
	}
}

/// the real `Handshake::accept` reading `bytes` (then end of stream) from a scripted peer
fn scripted_accept(our_genesis: Hash, bytes: &[u8]) -> Result<u32, String> {
	let (mut a, mut b) = hs_pair();
	let bytes = bytes.to_vec();
	let t = std::thread::spawn(move || {
		let _ = a.write_all(&bytes);
		let _ = a.shutdown(Shutdown::Write);
		let mut sink = vec![];
		let _ = a.read_to_end(&mut sink);
	});
	let hs = Handshake::new(our_genesis, P2PConfig::default());
	let r = hs.accept(Capabilities::default(), Difficulty::from_num(1), &mut b).map(|i| i.version.value()).map_err(|e| err_name(&e));
	let _ = b.shutdown(Shutdown::Both);
	let _ = t.join();
	r
}

/// the real `Handshake::initiate` against a scripted peer that swallows the Hand and answers `bytes`
fn scripted_initiate(our_genesis: Hash, bytes: &[u8]) -> Result<u32, String> {
	let (mut a, mut b) = hs_pair();
	let bytes = bytes.to_vec();
	let t = std::thread::spawn(move || {
		// read the Hand frame: header, then body
		let mut head = [0u8; 11];
		if b.read_exact(&mut head).is_ok() {
			let mut l = [0u8; 8];
			l.copy_from_slice(&head[3..11]);
			let mut body = vec![0u8; u64::from_be_bytes(l) as usize];
			let _ = b.read_exact(&mut body);
		}
		let _ = b.write_all(&bytes);
		let _ = b.shutdown(Shutdown::Write);
		let mut sink = vec![];
		let _ = b.read_to_end(&mut sink);
	});
	let hs = Handshake::new(our_genesis, P2PConfig::default());
	let r = hs
		.initiate(Capabilities::default(), Difficulty::from_num(1), PeerAddr("127.0.0.1:3414".parse().unwrap()), &mut a)
		.map(|i| i.version.value())
		.map_err(|e| err_name(&e));
	let _ = a.shutdown(Shutdown::Both);
	let _ = t.join();
	r
}

// ---------------------------------------------------------------------------------------------
// timing inside a message body: the real reader thread of conn.rs, real pauses between fragments

fn rand_commit(rng: &mut Rng) -> Commitment {
	Commitment::from_vec(rng.bytes(33))
}

fn gen_output(rng: &mut Rng) -> Output {
	let mut proof = [0u8; 675];
	proof.copy_from_slice(&rng.bytes(675));
	Output::new(OutputFeatures::Plain, rand_commit(rng), RangeProof { proof, plen: 675 })
}

fn gen_kernel(rng: &mut Rng) -> TxKernel {
	let fee = {
		let raw = (rng.below(1 << 30) + 1).to_be_bytes();
		ser::deserialize::<grin_core::core::FeeFields, _>(&mut &raw[..], ProtocolVersion(1), DeserializationMode::default()).unwrap()
	};
	let features = if rng.chance(1, 2) {
		KernelFeatures::Plain { fee }
	} else {
		KernelFeatures::HeightLocked { fee, lock_height: rng.below(1 << 20) }
	};
	let mut k = TxKernel::with_features(features);
	k.excess = rand_commit(rng);
	k
}

/// a block that passes `UntrustedBlock::read` (mined header, sorted body, light enough)
fn gen_block(cx: &mut Ctx, n_out: usize, n_kern: usize) -> Block {
	let header = header_pool(cx, 1).pop().unwrap();
	let r = &mut cx.rng;
	let inputs: Vec<Input> = vec![];
	let outputs: Vec<Output> = (0..n_out).map(|_| gen_output(r)).collect();
	let kernels: Vec<TxKernel> = (0..n_kern).map(|_| gen_kernel(r)).collect();
	let body = TransactionBody::init(Inputs::from(inputs.as_slice()), &outputs, &kernels, false).unwrap();
	Block { header, body }
}

/// body of a `KernelSegment` response: block hash, then a `Segment<TxKernel>` (positions strictly increasing)
fn gen_kernel_segment_body(rng: &mut Rng, ver: u32, nl: u64) -> Vec<u8> {
	let be64 = |x: u64| x.to_be_bytes();
	let mut b = rng.bytes(32);
	b.push(rng.below(14) as u8);
	b.extend_from_slice(&be64(rng.below(1 << 20)));
	let nh = 1 + rng.below(4);
	b.extend_from_slice(&be64(nh));
	let mut p = 0u64;
	for _ in 0..nh {
		p += 1 + rng.below(9);
		b.extend_from_slice(&be64(p));
	}
	for _ in 0..nh {
		b.extend_from_slice(&rng.bytes(32));
	}
	b.extend_from_slice(&be64(nl));
	let mut p = 0u64;
	for _ in 0..nl {
		p += 1 + rng.below(9);
		b.extend_from_slice(&be64(p));
	}
	for _ in 0..nl {
		b.extend_from_slice(&sv(&gen_kernel(rng), ver));
	}
	let np = 1 + rng.below(4);
	b.extend_from_slice(&be64(np));
	for _ in 0..np {
		b.extend_from_slice(&rng.bytes(32));
	}
	b
}

#[derive(Default)]
struct Seen {
	events: Vec<String>,
	got: Vec<Exp>,
	n_att: u64,
}

/// the `MessageHandler` of the timed runs: records what the reader thread hands over, answers a `Ping`
/// with a `Pong`, a `TxHashSetArchive` with `Consumed::Attachment`
struct Recorder {
	ver: u32,
	work: std::path::PathBuf,
	id: u64,
	seen: Arc<Mutex<Seen>>,
}

impl MessageHandler for Recorder {
	fn consume(&self, message: Message) -> Result<Consumed, grin_p2p::Error> {
		let ver = self.ver;
		let mut seen = self.seen.lock().unwrap();
		match message {
			Message::Headers(d) => {
				let canon: Vec<u8> = d.headers.iter().flat_map(|h| sv(h, ver)).collect();
				seen.events.push(format!("headers:{}:{}:{}", d.headers.len(), d.remaining, hex(&canon)));
				seen.got.push(Exp::Headers(d.headers.len(), d.remaining, hex(&canon)));
				Ok(Consumed::None)
			}
			Message::Attachment(up, _) => {
				seen.events.push(format!("att:{}:{}", up.read, up.left));
				seen.got.push(Exp::Att(up.read, up.left, 0));
				if up.left == 0 {
					// conn.rs has synced and closed the file before handing the update over
					let data = std::fs::read(&up.meta.path).unwrap_or_default();
					seen.events.push(format!("attsum:{}:{}", data.len(), checksum(&data)));
					seen.got.push(Exp::AttSum(data.len(), checksum(&data)));
					let _ = std::fs::remove_file(&up.meta.path);
				}
				Ok(Consumed::None)
			}
			Message::Block(b) => {
				let c = hex(&sv(&Block::from(b), ver));
				seen.events.push(format!("body:{}:{}", Type::Block as u8, c));
				seen.got.push(Exp::Body(Type::Block as u8, c));
				Ok(Consumed::None)
			}
			Message::KernelSegment(r) => {
				let c = hex(&sv(&r, ver));
				seen.events.push(format!("body:{}:{}", Type::KernelSegment as u8, c));
				seen.got.push(Exp::Body(Type::KernelSegment as u8, c));
				Ok(Consumed::None)
			}
			m => {
				let mut resp = Consumed::None;
				if let Message::Ping(p) = &m {
					let pong = Pong { total_difficulty: p.total_difficulty, height: p.height };
					resp = Consumed::Response(Msg::new(Type::Pong, pong, ProtocolVersion(ver))?);
				}
				if let Message::TxHashSetArchive(a) = &m {
					seen.n_att += 1;
					let path = self.work.join(format!("timed-att-{}-{}.bin", self.id, seen.n_att));
					let file = std::fs::File::create(&path).map_err(|_| grin_p2p::Error::Internal)?;
					let meta = AttachmentMeta {
						size: a.bytes as usize,
						hash: a.hash,
						height: a.height,
						start_time: Utc::now(),
						path,
					};
					resp = Consumed::Attachment(Arc::new(meta), file);
				}
				match canon_message(&m, ver) {
					Some((t, c)) => {
						seen.events.push(format!("body:{}:{}", t, c));
						seen.got.push(Exp::Body(t, c));
					}
					None => seen.events.push("other".to_string()),
				}
				Ok(resp)
			}
		}
	}
}

struct TimedRes {
	events: Vec<String>,
	got: Vec<Exp>,
	pongs: usize,
	closed: bool,
	wall_ms: u128,
}

/// write `sched` (pause in ms, fragment) to a fresh loopback connection whose other end is the real
/// `conn::listen` reader / writer thread pair; collect the Pongs that come back
fn run_timed(ver: u32, sched: &[(u64, Vec<u8>)], want_pongs: usize, work: &std::path::Path, id: u64) -> TimedRes {
	let t0 = Instant::now();
	let listener = TcpListener::bind("127.0.0.1:0").unwrap();
	let mut client = TcpStream::connect(listener.local_addr().unwrap()).unwrap();
	client.set_nodelay(true).unwrap();
	let (server, _) = listener.accept().unwrap();
	let seen = Arc::new(Mutex::new(Seen::default()));
	let handler = Recorder { ver, work: work.to_path_buf(), id, seen: seen.clone() };
	let (_conn_handle, stop_handle) = listen(server, ProtocolVersion(ver), Arc::new(Tracker::new()), handler).unwrap();
	let (pongs, closed) = drive_client(&mut client, sched, want_pongs);
	stop_handle.stop();
	let _ = client.shutdown(Shutdown::Both);
	let s = seen.lock().unwrap();
	TimedRes { events: s.events.clone(), got: s.got.clone(), pongs, closed, wall_ms: t0.elapsed().as_millis() }
}

/// the peer's side of a delivery: write the schedule, collect the Pongs, see whether the connection is still up
fn drive_client(client: &mut TcpStream, sched: &[(u64, Vec<u8>)], want_pongs: usize) -> (usize, bool) {
	let mut write_failed = false;
	for (d, f) in sched {
		if *d > 0 {
			std::thread::sleep(Duration::from_millis(*d));
		}
		if client.write_all(f).is_err() {
			write_failed = true;
			break;
		}
		let _ = client.flush();
	}
	// the Pongs for our Pings (the writer thread of conn.rs spaces messages 150 ms apart)
	let mut pongs = 0;
	let mut closed = write_failed;
	let _ = client.set_read_timeout(Some(Duration::from_millis(4000)));
	while !closed && pongs < want_pongs {
		let mut head = [0u8; 11];
		match client.read_exact(&mut head) {
			Ok(()) => {}
			Err(e) => {
				if e.kind() != std::io::ErrorKind::WouldBlock && e.kind() != std::io::ErrorKind::TimedOut {
					closed = true;
				}
				break;
			}
		}
		let mut l = [0u8; 8];
		l.copy_from_slice(&head[3..11]);
		let mut body = vec![0u8; (u64::from_be_bytes(l) as usize).min(1 << 20)];
		if client.read_exact(&mut body).is_err() {
			closed = true;
			break;
		}
		if head[2] == Type::Pong as u8 {
			pongs += 1;
		}
	}
	// still connected? (nothing more is due: a read must time out, not hit end of stream)
	if !closed {
		let _ = client.set_read_timeout(Some(Duration::from_millis(400)));
		let mut b = [0u8; 1];
		match client.read(&mut b) {
			Ok(0) => closed = true,
			Ok(_) => {}
			Err(e) if e.kind() == std::io::ErrorKind::WouldBlock || e.kind() == std::io::ErrorKind::TimedOut => {}
			Err(_) => closed = true,
		}
	}
	(pongs, closed)
}

/// a conversation under construction: the stream, what must be delivered, and which codec state waits
/// for each byte
struct Conv {
	ver: u32,
	stream: Vec<u8>,
	exp: Vec<Exp>,
	pings: usize,
	/// (state the codec is in while it waits for the bytes of the range, start, end)
	zones: Vec<(&'static str, usize, usize)>,
	names: Vec<String>,
}

impl Conv {
	fn new(ver: u32) -> Conv {
		Conv { ver, stream: vec![], exp: vec![], pings: 0, zones: vec![], names: vec![] }
	}
	fn frame(&mut self, name: &str, w: &[u8], body_state: &'static str) -> usize {
		let s = self.stream.len();
		self.zones.push(("None", s, s + 11));
		if w.len() > 11 {
			self.zones.push((body_state, s + 11, s + w.len()));
		}
		self.stream.extend_from_slice(w);
		self.names.push(name.to_string());
		s
	}
	fn ping(&mut self, rng: &mut Rng) {
		let body = Ping { total_difficulty: Difficulty::from_num(rng.next()), height: rng.next() };
		let canon = hex(&sv(&body, self.ver));
		let w = wire(&Msg::new(Type::Ping, body, ProtocolVersion(self.ver)).unwrap());
		self.frame("Ping", &w, "Header(Known)");
		self.exp.push(Exp::Body(Type::Ping as u8, canon));
		self.pings += 1;
	}
	/// `Headers` of `hs`: returns (start of the items, length of one item)
	fn headers(&mut self, hs: &[BlockHeader]) -> (usize, usize) {
		let ver = self.ver;
		let n = hs.len();
		if n == 0 {
			self.exp.push(Exp::Headers(0, 0, hex(&[])));
		}
		let mut i = 0;
		while i < n {
			let j = (i + 32).min(n);
			let canon: Vec<u8> = hs[i..j].iter().flat_map(|h| sv(h, ver)).collect();
			self.exp.push(Exp::Headers(j - i, (n - j) as u64, hex(&canon)));
			i = j;
		}
		let w = wire(&Msg::new(Type::Headers, Headers { headers: hs.to_vec() }, ProtocolVersion(ver)).unwrap());
		let s = self.stream.len();
		self.zones.push(("None", s, s + 11));
		self.zones.push(("Header(Known Headers: item count)", s + 11, s + 13));
		self.zones.push(("BlockHeaders", s + 13, s + w.len()));
		self.stream.extend_from_slice(&w);
		self.names.push(format!("Headers({})", n));
		(s + 13, hs.first().map(|h| sv(h, ver).len()).unwrap_or(0))
	}
	fn block(&mut self, b: &Block) -> (usize, usize) {
		let canon = hex(&sv(b, self.ver));
		let w = wire(&Msg::new(Type::Block, b.clone(), ProtocolVersion(self.ver)).unwrap());
		let s = self.frame("Block", &w, "Header(Known)");
		self.exp.push(Exp::Body(Type::Block as u8, canon));
		(s + 11, w.len() - 11)
	}
	fn kernel_segment(&mut self, body: &[u8]) -> (usize, usize) {
		let mut w = sv(&MsgHeader::new(Type::KernelSegment, body.len() as u64), self.ver);
		w.extend_from_slice(body);
		let s = self.frame("KernelSegment", &w, "Header(Known)");
		self.exp.push(Exp::Body(Type::KernelSegment as u8, hex(body)));
		(s + 11, body.len())
	}
	fn unknown(&mut self, t: u8, body: &[u8]) -> (usize, usize) {
		let mut w = sv(&MsgHeader::new(Type::Ping, body.len() as u64), self.ver);
		w[2] = t;
		w.extend_from_slice(body);
		let s = self.frame("Unknown", &w, "Header(Unknown)");
		// conn.rs swallows `Message::Unknown`: nothing reaches the handler
		(s + 11, body.len())
	}
	/// `TxHashSetArchive` + attachment: returns (start of the attachment bytes, their number)
	fn archive(&mut self, rng: &mut Rng, data: &[u8], work: &std::path::Path) -> (usize, usize) {
		let ver = self.ver;
		let path = work.join(format!("timed-src-{}.bin", rng.next()));
		std::fs::write(&path, data).unwrap();
		let body = TxHashSetArchive { hash: hash32(rng), height: rng.next(), bytes: data.len() as u64 };
		let canon = hex(&sv(&body, ver));
		let mut m = Msg::new(Type::TxHashSetArchive, body, ProtocolVersion(ver)).unwrap();
		m.add_attachment(std::fs::File::open(&path).unwrap());
		let w = wire(&m);
		let _ = std::fs::remove_file(&path);
		let s = self.stream.len();
		let body_end = s + w.len() - data.len();
		self.zones.push(("None", s, s + 11));
		self.zones.push(("Header(Known)", s + 11, body_end));
		if !data.is_empty() {
			self.zones.push(("Attachment", body_end, s + w.len()));
		}
		self.stream.extend_from_slice(&w);
		self.names.push(format!("TxHashSetArchive+{}", data.len()));
		self.exp.push(Exp::Body(Type::TxHashSetArchive as u8, canon));
		if data.is_empty() {
			self.exp.push(Exp::Att(0, 0, 0));
		}
		let mut off = 0;
		while off < data.len() {
			let n = (data.len() - off).min(48_000);
			self.exp.push(Exp::Att(n, data.len() - off - n, 0));
			off += n;
		}
		self.exp.push(Exp::AttSum(data.len(), checksum(data)));
		(body_end, data.len())
	}
	fn state_at(&self, off: usize) -> &'static str {
		for (k, a, b) in &self.zones {
			if *a <= off && off < *b {
				if *k == "None" && off == *a {
					return "None (idle, nothing of the frame pulled)";
				}
				return k;
			}
		}
		"?"
	}
}

struct Scn {
	name: String,
	conv: Conv,
	/// (offset of the first byte written after the pause, pause in ms)
	cuts: Vec<(usize, u64)>,
	/// a pause outside the I/O timeouts (model correspondence only, no oracle)
	outside: bool,
	/// the reader must end the connection (a refused frame) instead of keeping it open
	want_closed: bool,
}

fn make_sched(stream: &[u8], cuts: &[(usize, u64)]) -> Vec<(u64, Vec<u8>)> {
	let mut v = vec![];
	let mut last = 0;
	let mut d = 0;
	for &(o, p) in cuts {
		if o <= last || o >= stream.len() {
			continue;
		}
		v.push((d, stream[last..o].to_vec()));
		last = o;
		d = p;
	}
	v.push((d, stream[last..].to_vec()));
	v
}

/// is `off` strictly inside one top-up read of the `BlockHeaders` state? (first read: `hdr_max` bytes, every
/// later one tops the buffer up to `hdr_max` again after one item of `item` bytes was consumed)
fn inside_topup(items_start: usize, item: usize, hdr_max: usize, off: usize) -> bool {
	if off <= items_start {
		return false;
	}
	let rel = off - items_start;
	if rel < hdr_max {
		return true;
	}
	(rel - hdr_max) % item != 0
}

fn timed(cx: &mut Ctx, work: &std::path::Path) {
	const LONG: u64 = 2500; // > HEADER_IO_TIMEOUT (2 s), far below BODY_IO_TIMEOUT (60 s)
	let hdr_max = global::header_size_bytes(63);
	let mut scns: Vec<Scn> = vec![];
	let thorough = cx.thorough;
	let pool40: Vec<BlockHeader> = header_pool(cx, 40);
	let ver_of = |i: usize| VERSIONS[i % 4];

	// 1. Headers(40) + Ping: pause after frame header + count + 100 bytes of the first block header
	{
		let mut c = Conv::new(1000);
		let (items, item) = c.headers(&pool40);
		c.ping(&mut cx.rng);
		assert!(inside_topup(items, item, hdr_max, items + 100));
		scns.push(Scn { name: "Headers(40)+Ping, pause 100 bytes into the first header".into(), conv: c, cuts: vec![(items + 100, LONG)], outside: false, want_closed: false });
	}
	// 2. the same list, pause exactly on an item boundary (after the first header; strictly inside the first top-up read)
	{
		let mut c = Conv::new(2);
		let (items, item) = c.headers(&pool40);
		c.ping(&mut cx.rng);
		assert!(inside_topup(items, item, hdr_max, items + item));
		scns.push(Scn { name: "Headers(40)+Ping, pause on the boundary after item 1".into(), conv: c, cuts: vec![(items + item, LONG)], outside: false, want_closed: false });
	}
	// 3. a block body
	{
		let mut c = Conv::new(3);
		let b = gen_block(cx, 3, 2);
		let (body, len) = c.block(&b);
		c.ping(&mut cx.rng);
		scns.push(Scn { name: "Block+Ping, pause in the middle of the body".into(), conv: c, cuts: vec![(body + len / 2, LONG)], outside: false, want_closed: false });
	}
	// 4. a segment response
	{
		let mut c = Conv::new(1000);
		let sb = gen_kernel_segment_body(&mut cx.rng, 1000, 4);
		let (body, len) = c.kernel_segment(&sb);
		c.ping(&mut cx.rng);
		scns.push(Scn { name: "KernelSegment+Ping, pause a third into the body".into(), conv: c, cuts: vec![(body + len / 3, LONG)], outside: false, want_closed: false });
	}
	// 5. an attachment: pause inside the second 48 000-byte chunk
	{
		let mut c = Conv::new(1);
		let data = cx.rng.bytes(60_000);
		let (att, _) = c.archive(&mut cx.rng, &data, work);
		c.ping(&mut cx.rng);
		scns.push(Scn { name: "TxHashSetArchive+60000+Ping, pause 777 bytes into the second chunk".into(), conv: c, cuts: vec![(att + 48_000 + 777, LONG)], outside: false, want_closed: false });
	}
	// 6. a pause while idle (message boundary): the read times out with nothing pulled and is retried; then a
	//    pause inside the 16-byte body of a Ping
	{
		let mut c = Conv::new(2);
		c.ping(&mut cx.rng);
		let second = c.stream.len();
		c.ping(&mut cx.rng);
		scns.push(Scn { name: "Ping, idle pause, Ping with a pause inside its body".into(), conv: c, cuts: vec![(second, LONG), (second + 11 + 7, 2100)], outside: false, want_closed: false });
	}
	// 7. OUTSIDE the I/O timeouts (model correspondence of the timeout itself): 2.5 s in the middle of a frame
	//    header: the 5 bytes already pulled are dropped, the stream is desynchronised, the reader leaves
	{
		let mut c = Conv::new(1);
		c.ping(&mut cx.rng);
		c.ping(&mut cx.rng);
		scns.push(Scn { name: "OUTSIDE: pause in the middle of a frame header".into(), conv: c, cuts: vec![(5, LONG)], outside: true, want_closed: false });
	}
	if thorough {
		// sweep: every body state x offsets (first / middle / last byte of the zone, read boundaries, item and
		// chunk boundaries) x pauses of 2.1 / 2.5 / 4.1 / 6.5 s, two pauses in one message, all protocol versions
		let pauses = [2100u64, 2500, 4100, 6500];
		let mut k = 0usize;
		let mut next_pause = || {
			k += 1;
			pauses[k % 4]
		};
		// Headers: 40 and 65 items
		for (n, vi) in [(40usize, 0usize), (65, 1), (33, 2)] {
			let hs = header_pool(cx, n);
			let item = sv(&hs[0], ver_of(vi)).len();
			let total = item * n;
			let offs: Vec<(String, usize)> = vec![
				("between the two count bytes".into(), 0usize.wrapping_sub(1)),
				("first item byte".into(), 0),
				("1 byte into item 1".into(), 1),
				("last byte of the first top-up read".into(), hdr_max - 1),
				("first top-up read boundary".into(), hdr_max),
				("1 past the read boundary".into(), hdr_max + 1),
				("boundary after item 1".into(), item),
				("boundary after item 31".into(), 31 * item),
				("boundary after item 32 (batch)".into(), 32 * item),
				("inside item 33".into(), 32 * item + 100),
				("last item, last byte".into(), total - 1),
				("boundary before the last item".into(), total - item),
			];
			for (label, rel) in offs {
				let mut c = Conv::new(ver_of(vi));
				let (items, _) = c.headers(&hs);
				c.ping(&mut cx.rng);
				let off = items.wrapping_add(rel);
				let p = next_pause();
				scns.push(Scn { name: format!("Headers({})+Ping, pause at {}", n, label), conv: c, cuts: vec![(off, p)], outside: false, want_closed: false });
			}
			// two pauses in one list
			let mut c = Conv::new(ver_of(vi));
			let (items, _) = c.headers(&hs);
			c.ping(&mut cx.rng);
			scns.push(Scn { name: format!("Headers({})+Ping, two pauses", n), conv: c, cuts: vec![(items + 50, 2100), (items + 20 * item + 3, 2500)], outside: false, want_closed: false });
		}
		// plain bodies, block, segment, unknown type, archive body, attachment
		for vi in 0..4 {
			let ver = ver_of(vi);
			let b = gen_block(cx, 1 + vi, 1 + vi % 2);
			for frac in [0usize, 1, 2, 3] {
				let mut c = Conv::new(ver);
				let (body, len) = c.block(&b);
				c.ping(&mut cx.rng);
				let off = match frac {
					0 => body,
					1 => body + 1,
					2 => body + len / 2,
					_ => body + len - 1,
				};
				let p = next_pause();
				scns.push(Scn { name: format!("Block+Ping, pause at body offset {}/{}", off - body, len), conv: c, cuts: vec![(off, p)], outside: false, want_closed: false });
			}
			let sb = gen_kernel_segment_body(&mut cx.rng, ver, 1 + vi as u64);
			for frac in [1usize, 2, 3] {
				let mut c = Conv::new(ver);
				c.ping(&mut cx.rng);
				let (body, len) = c.kernel_segment(&sb);
				c.ping(&mut cx.rng);
				let off = body + len * frac / 4;
				let p = next_pause();
				scns.push(Scn { name: format!("Ping+KernelSegment+Ping, pause at body offset {}/{}", off - body, len), conv: c, cuts: vec![(off, p)], outside: false, want_closed: false });
			}
			let ub = cx.rng.bytes(300);
			for rel in [0usize, 150, 299] {
				let mut c = Conv::new(ver);
				let (body, _) = c.unknown(200, &ub);
				c.ping(&mut cx.rng);
				let p = next_pause();
				scns.push(Scn { name: format!("Unknown(300)+Ping, pause at body offset {}", rel), conv: c, cuts: vec![(body + rel, p)], outside: false, want_closed: false });
			}
		}
		let data = cx.rng.bytes(100_000);
		for (vi, rel) in [0usize, 1, 47_999, 48_000, 48_001, 70_000, 96_000, 99_999].iter().enumerate() {
			let mut c = Conv::new(ver_of(vi));
			let (att, _) = c.archive(&mut cx.rng, &data, work);
			c.ping(&mut cx.rng);
			let p = next_pause();
			scns.push(Scn { name: format!("TxHashSetArchive+100000+Ping, pause at attachment offset {}", rel), conv: c, cuts: vec![(att + rel, p)], outside: false, want_closed: false });
		}
		{
			// inside the 48-byte body of the archive message itself, then inside the attachment
			let mut c = Conv::new(3);
			let small = cx.rng.bytes(5_000);
			let (att, _) = c.archive(&mut cx.rng, &small, work);
			c.ping(&mut cx.rng);
			scns.push(Scn { name: "TxHashSetArchive+5000+Ping, pause inside the archive body and inside the attachment".into(), conv: c, cuts: vec![(att - 20, 2100), (att + 2_500, 2500)], outside: false, want_closed: false });
		}
		// random offsets anywhere after an accepted header, several pauses per conversation
		for i in 0..12usize {
			let ver = ver_of(i);
			let mut c = Conv::new(ver);
			c.ping(&mut cx.rng);
			let hs = header_pool(cx, 3 + i % 5);
			c.headers(&hs);
			let b = gen_block(cx, 2, 1);
			c.block(&b);
			let small = cx.rng.bytes(1_000 + 100 * i);
			c.archive(&mut cx.rng, &small, work);
			c.ping(&mut cx.rng);
			let body_zones: Vec<(usize, usize)> = c.zones.iter().filter(|z| z.0 != "None").map(|z| (z.1, z.2)).collect();
			let mut cuts: Vec<(usize, u64)> = vec![];
			for _ in 0..2 {
				let z = *cx.rng.pick(&body_zones);
				let off = z.0 + cx.rng.below((z.1 - z.0) as u64) as usize;
				cuts.push((off, next_pause().min(2500)));
			}
			// plus small gaps anywhere (also inside frame headers): well below the header timeout
			for _ in 0..3 {
				let off = 1 + cx.rng.below(c.stream.len() as u64 - 1) as usize;
				cuts.push((off, cx.rng.below(40)));
			}
			cuts.sort_unstable();
			cuts.dedup_by_key(|c| c.0);
			scns.push(Scn { name: format!("mixed conversation {} with random pauses", i), conv: c, cuts, outside: false, want_closed: false });
		}
	}

	deliver_all(cx, &scns, work, "timed");
}

/// run the scenarios concurrently (each has its own connection and reader / writer threads), evaluate the
/// oracle, print one `codec timed` line per delivery, in order
fn deliver_all(cx: &mut Ctx, scns: &[Scn], work: &std::path::Path, tag: &str) {
	let thorough = cx.thorough;
	let batch = if thorough { 24 } else { 8 };
	let t_all = Instant::now();
	let mut results: Vec<Option<TimedRes>> = (0..scns.len()).map(|_| None).collect();
	let mut start = 0;
	while start < scns.len() {
		let end = (start + batch).min(scns.len());
		let handles: Vec<_> = (start..end)
			.map(|i| {
				let sched = make_sched(&scns[i].conv.stream, &scns[i].cuts);
				let ver = scns[i].conv.ver;
				let pings = scns[i].conv.pings;
				let work = work.to_path_buf();
				std::thread::spawn(move || {
					global::set_local_chain_type(ChainTypes::AutomatedTesting);
					run_timed(ver, &sched, pings, &work, i as u64)
				})
			})
			.collect();
		for (j, h) in handles.into_iter().enumerate() {
			results[start + j] = h.join().ok();
		}
		start = end;
	}
	let wall = t_all.elapsed().as_millis();
	for (i, scn) in scns.iter().enumerate() {
		let sched = make_sched(&scn.conv.stream, &scn.cuts);
		let r = match &results[i] {
			Some(r) => r,
			None => {
				cx.fails += 1;
				cx.out.raw(&format!("#ORACLE-FAIL C19 timed delivery panicked: {}", scn.name));
				continue;
			}
		};
		let mut off = 0;
		for (d, f) in &sched {
			if off > 0 {
				let st = scn.conv.state_at(off);
				if *d >= 2000 {
					cx.stat(&format!("{}: pause >= 2 s while the codec waits in state {}", tag, st));
					cx.stat(&format!("{}: pause of {} ms", tag, d));
				} else {
					cx.stat(&format!("{}: gaps < 2 s, next byte awaited in state {}", tag, st));
				}
			}
			off += f.len();
		}
		cx.stat(&if scn.outside { format!("{}: deliveries with a pause outside the I/O timeouts (model correspondence only)", tag) } else { format!("{}: deliveries with tolerated pauses", tag) });
		let want: Vec<Exp> = scn.conv.exp.iter().filter(|e| !matches!(e, Exp::Unknown(_))).cloned().collect();
		if !scn.outside && (r.got != want || r.pongs != scn.conv.pings || r.closed != scn.want_closed) {
			cx.fails += 1;
			let short = |v: &Vec<Exp>| v.iter().map(|e| format!("{:?}", e).chars().take(48).collect::<String>()).collect::<Vec<_>>();
			cx.out.raw(&format!(
				"#ORACLE-FAIL C19 messages written with pauses within the I/O timeouts were not delivered exactly / not answered / connection lost: {} (version {}, messages {:?}, pauses {:?} (offset, ms), states {:?}): delivered {:?} expected {:?}; pongs {} of {}; connection closed by the reader: {} (expected {})",
				scn.name, scn.conv.ver, scn.conv.names, scn.cuts,
				scn.cuts.iter().map(|c| scn.conv.state_at(c.0)).collect::<Vec<_>>(),
				short(&r.got), short(&want), r.pongs, scn.conv.pings, r.closed, scn.want_closed
			));
		}
		// attachments: exactly one end-of-attachment per archive, nothing after it
		let n_arch = want.iter().filter(|e| matches!(e, Exp::AttSum(_, _))).count();
		if n_arch > 0 && !scn.outside {
			let ends = r.got.iter().filter(|e| matches!(e, Exp::Att(_, 0, _))).count();
			let sums = r.got.iter().filter(|e| matches!(e, Exp::AttSum(_, _))).count();
			let read: usize = r.got.iter().map(|e| if let Exp::Att(n, _, _) = e { *n } else { 0 }).sum();
			let want_read: usize = want.iter().map(|e| if let Exp::AttSum(n, _) = e { *n } else { 0 }).sum();
			cx.stat(&format!("{}: archives with an attachment delivered", tag));
			if ends != n_arch || sums != n_arch || read != want_read {
				cx.fails += 1;
				cx.out.raw(&format!(
					"#ORACLE-FAIL C19 attachment streamed after a message: {} archives sent, {} updates with left == 0, {} completed files, {} attachment bytes reported of {} ({}; version {}, fragments at {:?})",
					n_arch, ends, sums, read, want_read, scn.name, scn.conv.ver, scn.cuts.iter().map(|c| c.0).collect::<Vec<_>>()
				));
			}
		}
		if scn.outside {
			cx.out.raw(&format!(
				"#STAT timed probe outside the timeouts ({}): delivered {} events, pongs {} of {}, reader closed the connection: {}",
				scn.name, r.got.len(), r.pongs, scn.conv.pings, r.closed
			));
		}
		let mut evs = r.events.clone();
		evs.push(format!("pongs:{}", r.pongs));
		evs.push(format!("closed:{}", if r.closed { 1 } else { 0 }));
		let sched_txt: Vec<String> = sched.iter().map(|(d, f)| format!("{}:{}", d, hex(f))).collect();
		cx.out.line(&format!("codec timed {} [{}]", scn.conv.ver, sched_txt.join(",")), &format!("[{}]", evs.join(";")));
		cx.out.raw(&format!("#STAT {} scenario {}: {} ms", tag, scn.name, r.wall_ms));
	}
	cx.out.raw(&format!("#STAT {}: {} deliveries in {} ms wall clock ({} at a time)", tag, scns.len(), wall, batch));
}

// ---------------------------------------------------------------------------------------------
// attachments streamed after a message: every chunk-boundary size, in one burst and fragmented

fn attachments(cx: &mut Ctx, work: &std::path::Path) {
	const CHUNK: usize = 48_000;
	let mut sizes: Vec<usize> = vec![0, 1, 47_999, 48_000, 48_001, 95_999, 96_000, 96_001, 144_000];
	sizes.push(2 + cx.rng.below(150_000) as usize);
	let mut scns: Vec<Scn> = vec![];
	for (si, &n) in sizes.iter().enumerate() {
		let data = cx.rng.bytes(n);
		// the second archive after the Ping: small in the quick tier, another boundary size in the thorough one
		let n2 = if cx.thorough { [CHUNK, 0, 96_000, 1, 48_001][si % 5] } else { [1_000, 0, 1][si % 3] };
		let data2 = cx.rng.bytes(n2);
		let ver = VERSIONS[si % 4];
		let build = |cx: &mut Ctx| -> (Conv, usize) {
			let mut c = Conv::new(ver);
			let (att, _) = c.archive(&mut cx.rng, &data, work);
			c.ping(&mut cx.rng);
			c.archive(&mut cx.rng, &data2, work);
			c.ping(&mut cx.rng);
			(c, att)
		};
		// in one burst
		let (c, att) = build(cx);
		let len = c.stream.len();
		scns.push(Scn { name: format!("TxHashSetArchive+{}+Ping+TxHashSetArchive+{}+Ping in one burst", n, n2), conv: c, cuts: vec![], outside: false, want_closed: false });
		// cut exactly at every chunk boundary (start, 48 000, 96 000, …, end) and one byte either side
		let mut points: Vec<usize> = vec![];
		let mut k = 0;
		while k * CHUNK <= n {
			let b = att + k * CHUNK;
			for o in [b.wrapping_sub(1), b, b + 1] {
				if o > 0 && o < len {
					points.push(o);
				}
			}
			k += 1;
		}
		for o in [(att + n).wrapping_sub(1), att + n, att + n + 1] {
			if o > 0 && o < len {
				points.push(o);
			}
		}
		points.sort_unstable();
		points.dedup();
		let (c, _) = build(cx);
		scns.push(Scn {
			name: format!("TxHashSetArchive+{}+Ping+TxHashSetArchive+{}+Ping cut at every chunk boundary and one byte either side", n, n2),
			conv: c,
			cuts: points.iter().map(|&o| (o, 2)).collect(),
			outside: false,
			want_closed: false,
		});
		if cx.thorough {
			// every one of those cuts on its own, and a cut in the middle of every chunk
			let mut singles = points.clone();
			let mut k = 0;
			while k * CHUNK < n {
				singles.push(att + k * CHUNK + (n - k * CHUNK).min(CHUNK) / 2);
				k += 1;
			}
			singles.sort_unstable();
			singles.dedup();
			for o in singles {
				if o == 0 || o >= len {
					continue;
				}
				let (c, _) = build(cx);
				scns.push(Scn { name: format!("TxHashSetArchive+{}+Ping+…, one cut at attachment offset {}", n, o as i64 - att as i64), conv: c, cuts: vec![(o, 2)], outside: false, want_closed: false });
			}
		}
	}
	cx.out.raw(&format!("#STAT attach: attachment sizes {:?} (chunk size {})", sizes, CHUNK));
	deliver_all(cx, &scns, work, "attach");
}

// ---------------------------------------------------------------------------------------------
// Headers frames whose item count is fully satisfied, followed INSIDE msg_len by excess bytes

fn headers_excess(cx: &mut Ctx) {
	let ver = 1;
	let hs: Vec<BlockHeader> = header_pool(cx, 33);
	let items: Vec<Vec<u8>> = hs.iter().map(|h| sv(h, ver)).collect();
	// what the codec has read ahead beyond the last header when it is decoded
	let slack = global::header_size_bytes(63) - items[0].len();
	let ping = wire(&Msg::new(Type::Ping, Ping { total_difficulty: Difficulty::from_num(1), height: 2 }, ProtocolVersion(ver)).unwrap());
	for count in [1usize, 2, 33] {
		for junk in [1usize, 2, slack - 1, slack, slack + 1, 1000, 100_000] {
			let mut body = (count as u16).to_be_bytes().to_vec();
			for it in items.iter().take(count) {
				body.extend_from_slice(it);
			}
			let items_end = 11 + body.len();
			body.extend_from_slice(&cx.rng.bytes(junk));
			let mut w = sv(&MsgHeader::new(Type::Headers, body.len() as u64), ver);
			let frame_len = w.len() + body.len();
			w.extend_from_slice(&body);
			w.extend_from_slice(&ping);
			// in one piece, and cut right after the last announced item
			for frags in [vec![w.clone()], vec![w[..items_end].to_vec(), w[items_end..].to_vec()]] {
				let gaps = vec![500u64; frags.len()];
				let r = run_codec(ver, &frags, &gaps);
				cx.stat("Headers frames with all announced items present and excess bytes inside msg_len");
				let batches: Vec<String> = r.events.iter().filter(|e| e.starts_with("headers:")).map(|e| e.split(':').take(3).collect::<Vec<_>>().join(":")).collect();
				let want_batches: Vec<String> = if count > 32 { vec![format!("headers:32:{}", count - 32)] } else { vec![] };
				let total: u64 = r.events.iter().map(|e| e.rsplit(':').next().unwrap().parse::<u64>().unwrap_or(0)).sum::<u64>() + r.end_bytes;
				if r.end == "panic" {
					cx.fails += 1;
					let txt = format!(
						"the codec panicked on a Headers frame announcing {} items, carrying them and {} excess bytes inside msg_len {} ({} fragments): stream {}",
						count, junk, body.len(), frags.len(), hex(&w).chars().take(300).collect::<String>()
					);
					cx.out.raw(&format!("#ORACLE-FAIL C19 headers-excess-bytes-panic {}", txt));
					cx.out.raw(&format!("#ORACLE-FAIL C11 headers-excess-bytes-panic {}", txt));
				} else if r.end != "BadMessage" || batches != want_batches || r.events.len() != want_batches.len() || total > frame_len as u64 {
					cx.fails += 1;
					cx.out.raw(&format!(
						"#ORACLE-FAIL C19 Headers frame with {} items and {} excess bytes inside msg_len not refused with BadMessage after exactly the full batches: end {} batches {:?} (expected {:?}) events {} bytes read {} of frame {}",
						count, junk, r.end, batches, want_batches, r.events.len(), total, frame_len
					));
				}
				emit_run(cx, ver, &frags, &r, false);
			}
		}
	}
	cx.out.raw(&format!("#STAT headers-excess: read-ahead slack after the last header = {} bytes", slack));
}

// ---------------------------------------------------------------------------------------------
// address-carrying messages through msg::read_message on a fragmented TCP stream

/// what `PeerAddr::read` makes of an address: IPv4-mapped IPv6 becomes IPv4 (recorded C10 finding
/// peeraddr-v6-mapped-to-v4), everything else is kept
fn norm_addr(a: &PeerAddr) -> PeerAddr {
	use std::net::{SocketAddr, SocketAddrV4};
	match a.0 {
		SocketAddr::V6(v6) => match v6.ip().to_ipv4_mapped() {
			Some(v4) => PeerAddr(SocketAddr::V4(SocketAddrV4::new(v4, v6.port()))),
			None => a.clone(),
		},
		_ => a.clone(),
	}
}

fn read_over_tcp<T: ser::Readable + Writeable>(frags: &[Vec<u8>], ver: u32, ty: Type) -> Result<Vec<u8>, String> {
	let (mut a, mut b) = hs_pair();
	let frags: Vec<Vec<u8>> = frags.to_vec();
	let t = std::thread::spawn(move || {
		a.set_nodelay(true).ok();
		for f in &frags {
			if a.write_all(f).is_err() {
				break;
			}
			let _ = a.flush();
			std::thread::sleep(Duration::from_micros(300));
		}
		let _ = a.shutdown(Shutdown::Write);
		let mut sink = [0u8; 16];
		let _ = a.read(&mut sink);
	});
	let _ = b.set_read_timeout(Some(Duration::from_secs(10)));
	let r = catch(std::panic::AssertUnwindSafe(|| read_message::<T, _>(&mut b, ProtocolVersion(ver), ty)));
	let _ = b.shutdown(Shutdown::Both);
	let _ = t.join();
	match r {
		Ok(Ok(v)) => Ok(sv(&v, ver)),
		Ok(Err(e)) => Err(err_name(&e)),
		Err(_) => Err("panic".to_string()),
	}
}

fn addr_messages(cx: &mut Ctx) {
	use std::net::{IpAddr, Ipv6Addr, SocketAddr};
	let v6 = |s: &str, port: u16| PeerAddr(SocketAddr::new(IpAddr::V6(s.parse::<Ipv6Addr>().unwrap()), port));
	let v4 = |s: &str, port: u16| PeerAddr(s.parse::<SocketAddr>().map(|a| SocketAddr::new(a.ip(), port)).unwrap());
	// ::/96 addresses that are NOT IPv4-mapped, other IPv6, IPv4-mapped ones, IPv4
	let compat = ["::1", "::", "::10.0.0.1", "::0.2.0.3", "::255.255.255.255"];
	let other6 = ["2001:db8::1", "fe80::1", "::1:0:0", "ffff::10.0.0.1"];
	let mapped = ["::ffff:10.0.0.1", "::ffff:0.0.0.1", "::ffff:255.255.255.255", "::ffff:0.2.0.3"];
	let mut addrs: Vec<PeerAddr> = vec![];
	for (i, a) in compat.iter().chain(other6.iter()).chain(mapped.iter()).enumerate() {
		addrs.push(v6(a, 3414 + i as u16));
	}
	addrs.push(v4("10.0.0.1:1", 13414));
	addrs.push(v4("0.0.0.1:1", 0));
	let caps = Capabilities::default();
	let g = Hash::from_vec(&[7u8; 32]);
	struct Case {
		kind: &'static str,
		ver: u32,
		bytes: Vec<u8>,
		want: Vec<u8>,
		mapped: usize,
	}
	let mut cases: Vec<Case> = vec![];
	for (i, ver) in VERSIONS.iter().enumerate() {
		let ver = *ver;
		// PeerAddrs: all the addresses, rotated
		let mut peers = addrs.clone();
		peers.rotate_left(i * 3);
		let want = PeerAddrs { peers: peers.iter().map(norm_addr).collect() };
		let n_mapped = peers.iter().filter(|a| norm_addr(a) != **a).count();
		let m = PeerAddrs { peers };
		cases.push(Case { kind: "peeraddrs", ver, bytes: wire(&Msg::new(Type::PeerAddrs, m, ProtocolVersion(ver)).unwrap()), want: sv(&want, ver), mapped: n_mapped });
	}
	for (i, a) in addrs.iter().enumerate() {
		let ver = VERSIONS[i % 4];
		let other = addrs[(i * 7 + 3) % addrs.len()].clone();
		let mk = |s: &PeerAddr, r: &PeerAddr| Hand {
			version: ProtocolVersion(ver),
			capabilities: caps,
			nonce: 1000 + i as u64,
			genesis: g,
			total_difficulty: Difficulty::from_num(77),
			sender_addr: s.clone(),
			receiver_addr: r.clone(),
			user_agent: "verif/addr".to_string(),
		};
		let hand = mk(a, &other);
		let want = mk(&norm_addr(a), &norm_addr(&other));
		let n_mapped = [a, &other].iter().filter(|x| norm_addr(x) != ***x).count();
		cases.push(Case { kind: "hand", ver, bytes: wire(&Msg::new(Type::Hand, hand, ProtocolVersion(ver)).unwrap()), want: sv(&want, ver), mapped: n_mapped });
	}
	{
		let shake = Shake { version: ProtocolVersion(3), capabilities: caps, genesis: g, total_difficulty: Difficulty::from_num(5), user_agent: "verif/addr".to_string() };
		let want = sv(&shake, 3);
		cases.push(Case { kind: "shake", ver: 3, bytes: wire(&Msg::new(Type::Shake, shake, ProtocolVersion(3)).unwrap()), want, mapped: 0 });
	}
	for (ci, c) in cases.iter().enumerate() {
		let ty = match c.kind {
			"hand" => Type::Hand,
			"shake" => Type::Shake,
			_ => Type::PeerAddrs,
		};
		// unfragmented, EVERY single split point for the first case of each kind (all cases when thorough), a sample otherwise
		let mut plans: Vec<Vec<usize>> = vec![vec![]];
		let exhaustive = cx.thorough || ci == 0 || ci == 4 || c.kind == "shake";
		if exhaustive {
			for p in 1..c.bytes.len() {
				plans.push(vec![p]);
			}
			cx.stat(&format!("addr: {} messages cut at every single split point", c.kind));
		} else {
			for _ in 0..6 {
				plans.push(vec![1 + cx.rng.below(c.bytes.len() as u64 - 1) as usize]);
			}
		}
		let mut ps: Vec<usize> = (0..5).map(|_| 1 + cx.rng.below(c.bytes.len() as u64 - 1) as usize).collect();
		ps.sort_unstable();
		ps.dedup();
		plans.push(ps);
		for ps in plans {
			let frags = split_at_points(&c.bytes, &ps);
			let r = match c.kind {
				"hand" => read_over_tcp::<Hand>(&frags, c.ver, ty),
				"shake" => read_over_tcp::<Shake>(&frags, c.ver, ty),
				_ => read_over_tcp::<PeerAddrs>(&frags, c.ver, ty),
			};
			cx.stat(&format!("addr: {} read through read_message over TCP", c.kind));
			let rs = match &r {
				Ok(b) => format!("ok {}", hex(b)),
				Err(e) => format!("err {}", e),
			};
			if r.as_ref().ok() != Some(&c.want) {
				cx.fails += 1;
				cx.out.raw(&format!(
					"#ORACLE-FAIL C19 address-carrying {} message not read back as written (version {}, {} fragments, {} IPv4-mapped addresses expected as IPv4): read {} expected {} stream {}",
					c.kind, c.ver, frags.len(), c.mapped, rs.chars().take(400).collect::<String>(), hex(&c.want).chars().take(400).collect::<String>(), hex(&c.bytes).chars().take(400).collect::<String>()
				));
			}
			cx.out.line(&format!("codec rmsgv {} {}", c.kind, hex_list(&frags)), &rs);
		}
		if c.mapped > 0 {
			cx.stat("addr: messages containing IPv4-mapped IPv6 addresses (read back as IPv4: recorded C10 finding peeraddr-v6-mapped-to-v4)");
		}
	}
	cx.out.raw(&format!("#STAT addr: addresses used: ::/96 not mapped {:?}, other IPv6 {:?}, IPv4-mapped {:?}, 2 IPv4", compat, other6, mapped));
}

// ---------------------------------------------------------------------------------------------
// refusals at CONNECTION level: the reader loop of conn.rs, alone and behind a real Peer

static READER_PANICS: AtomicUsize = AtomicUsize::new(0);

/// a `NetAdapter` that records what `Protocol` + `TrackingAdapter` hand to the node
struct RecAdapter {
	ver: u32,
	log: Mutex<Vec<String>>,
}
impl RecAdapter {
	fn push(&self, s: String) {
		self.log.lock().unwrap().push(s);
	}
}
impl ChainAdapter for RecAdapter {
	fn total_difficulty(&self) -> Result<Difficulty, grin_chain::Error> {
		Ok(Difficulty::from_num(4242))
	}
	fn total_height(&self) -> Result<u64, grin_chain::Error> {
		Ok(4243)
	}
	fn transaction_received(&self, tx: Transaction, _stem: bool) -> Result<bool, grin_chain::Error> {
		self.push(format!("payload:{}:{}", if _stem { Type::StemTransaction as u8 } else { Type::Transaction as u8 }, sv(&tx, self.ver).len()));
		Ok(true)
	}
	fn get_transaction(&self, _h: Hash) -> Option<Transaction> {
		None
	}
	fn tx_kernel_received(&self, _h: Hash, _p: &PeerInfo) -> Result<bool, grin_chain::Error> {
		self.push("other:kernel".to_string());
		Ok(true)
	}
	fn block_received(&self, b: Block, _p: &PeerInfo, _o: grin_chain::Options) -> Result<bool, grin_chain::Error> {
		self.push(format!("payload:{}:{}", Type::Block as u8, sv(&b, self.ver).len()));
		Ok(true)
	}
	fn compact_block_received(&self, cb: CompactBlock, _p: &PeerInfo) -> Result<bool, grin_chain::Error> {
		self.push(format!("payload:{}:{}", Type::CompactBlock as u8, sv(&cb, self.ver).len()));
		Ok(true)
	}
	fn header_received(&self, _bh: BlockHeader, _p: &PeerInfo) -> Result<bool, grin_chain::Error> {
		self.push("other:header".to_string());
		Ok(true)
	}
	fn headers_received(&self, bh: &[BlockHeader], _p: &PeerInfo) -> Result<bool, grin_chain::Error> {
		let canon: Vec<u8> = bh.iter().flat_map(|h| sv(h, self.ver)).collect();
		self.push(format!("headers:{}:{}", bh.len(), hex(&canon)));
		Ok(true)
	}
	fn locate_headers(&self, _l: &[Hash]) -> Result<Vec<BlockHeader>, grin_chain::Error> {
		Ok(vec![])
	}
	fn get_block(&self, _h: Hash, _p: &PeerInfo) -> Option<Block> {
		None
	}
	fn txhashset_read(&self, _h: Hash) -> Option<TxHashSetRead> {
		None
	}
	fn txhashset_archive_header(&self) -> Result<BlockHeader, grin_chain::Error> {
		Err(grin_chain::Error::Other("no archive".into()))
	}
	fn txhashset_receive_ready(&self) -> bool {
		false
	}
	fn txhashset_download_update(&self, _s: chrono::DateTime<Utc>, _d: u64, _t: u64) -> bool {
		false
	}
	fn txhashset_write(&self, _h: Hash, _f: std::fs::File, _p: &PeerInfo) -> Result<bool, grin_chain::Error> {
		Ok(false)
	}
	fn get_tmp_dir(&self) -> std::path::PathBuf {
		std::path::PathBuf::from(std::env::var("VERIF_WORK").unwrap_or_default())
	}
	fn get_tmpfile_pathname(&self, n: String) -> std::path::PathBuf {
		self.get_tmp_dir().join(n)
	}
	fn get_kernel_segment(&self, _h: Hash, _i: SegmentIdentifier) -> Result<Segment<TxKernel>, grin_chain::Error> {
		Err(grin_chain::Error::Other("no segments".into()))
	}
	fn get_bitmap_segment(&self, _h: Hash, _i: SegmentIdentifier) -> Result<(Segment<grin_chain::txhashset::BitmapChunk>, Hash), grin_chain::Error> {
		Err(grin_chain::Error::Other("no segments".into()))
	}
	fn get_output_segment(&self, _h: Hash, _i: SegmentIdentifier) -> Result<(Segment<OutputIdentifier>, Hash), grin_chain::Error> {
		Err(grin_chain::Error::Other("no segments".into()))
	}
	fn get_rangeproof_segment(&self, _h: Hash, _i: SegmentIdentifier) -> Result<Segment<RangeProof>, grin_chain::Error> {
		Err(grin_chain::Error::Other("no segments".into()))
	}
	fn receive_bitmap_segment(&self, _b: Hash, _o: Hash, _s: Segment<grin_chain::txhashset::BitmapChunk>) -> Result<bool, grin_chain::Error> {
		Ok(false)
	}
	fn receive_output_segment(&self, _b: Hash, _r: Hash, _s: Segment<OutputIdentifier>) -> Result<bool, grin_chain::Error> {
		Ok(false)
	}
	fn receive_rangeproof_segment(&self, _b: Hash, _s: Segment<RangeProof>) -> Result<bool, grin_chain::Error> {
		Ok(false)
	}
	fn receive_kernel_segment(&self, _b: Hash, _s: Segment<TxKernel>) -> Result<bool, grin_chain::Error> {
		Ok(false)
	}
}
impl NetAdapter for RecAdapter {
	fn find_peer_addrs(&self, c: Capabilities) -> Vec<PeerAddr> {
		self.push(format!("getpeeraddrs:{}", c.bits()));
		vec![]
	}
	fn peer_addrs_received(&self, _: Vec<PeerAddr>) {
		self.push("other:peeraddrs".to_string());
	}
	fn peer_difficulty(&self, _: PeerAddr, _: Difficulty, height: u64) {
		self.push(format!("ping:{}", height));
	}
	fn is_banned(&self, _: PeerAddr) -> bool {
		false
	}
}

struct PeerRes {
	events: Vec<String>,
	pongs: usize,
	closed: bool,
	version: u32,
}

/// a raw socket does a real Hand/Shake with a real `Peer::accept` (Protocol + TrackingAdapter + `RecAdapter`),
/// then writes `sched`
fn run_peer(hand_ver: u32, sched: &[(u64, Vec<u8>)], want_pongs: usize) -> Result<PeerRes, String> {
	let g = Hash::from_vec(&[7u8; 32]);
	let listener = TcpListener::bind("127.0.0.1:0").unwrap();
	let mut client = TcpStream::connect(listener.local_addr().unwrap()).unwrap();
	client.set_nodelay(true).unwrap();
	let (server, _) = listener.accept().unwrap();
	let ver = hand_ver.min(1000);
	let adapter = Arc::new(RecAdapter { ver, log: Mutex::new(vec![]) });
	let ad2 = adapter.clone();
	let t = std::thread::spawn(move || {
		global::set_local_chain_type(ChainTypes::AutomatedTesting);
		let hs = Handshake::new(g, P2PConfig::default());
		Peer::accept(server, Capabilities::default(), Difficulty::from_num(9), &hs, ad2).map_err(|e| err_name(&e))
	});
	let self_addr = PeerAddr("127.0.0.1:3414".parse().unwrap());
	let hand = Hand {
		version: ProtocolVersion(hand_ver),
		capabilities: Capabilities::default(),
		nonce: 0x5eed_0000 + hand_ver as u64,
		genesis: g,
		total_difficulty: Difficulty::from_num(1),
		sender_addr: self_addr,
		receiver_addr: self_addr,
		user_agent: "verif/peer".to_string(),
	};
	client.write_all(&wire(&Msg::new(Type::Hand, hand, ProtocolVersion(hand_ver)).unwrap())).map_err(|e| e.to_string())?;
	// the Shake
	let _ = client.set_read_timeout(Some(Duration::from_secs(5)));
	let mut head = [0u8; 11];
	client.read_exact(&mut head).map_err(|e| format!("no Shake: {}", e))?;
	if head[2] != Type::Shake as u8 {
		return Err(format!("first frame from the peer has type {}", head[2]));
	}
	let mut l = [0u8; 8];
	l.copy_from_slice(&head[3..11]);
	let mut body = vec![0u8; u64::from_be_bytes(l) as usize];
	client.read_exact(&mut body).map_err(|e| format!("short Shake: {}", e))?;
	let peer = t.join().map_err(|_| "accept thread panicked".to_string())??;
	let (pongs, closed) = drive_client(&mut client, sched, want_pongs);
	peer.stop();
	let _ = client.shutdown(Shutdown::Both);
	let events = adapter.log.lock().unwrap().clone();
	Ok(PeerRes { events, pongs, closed, version: peer.info.version.value() })
}

fn ping_frame(ver: u32, height: u64) -> Vec<u8> {
	wire(&Msg::new(Type::Ping, Ping { total_difficulty: Difficulty::from_num(31337), height }, ProtocolVersion(ver)).unwrap())
}

fn getpeers_frame(ver: u32, caps: u32) -> Vec<u8> {
	wire(&Msg::new(Type::GetPeerAddrs, GetPeerAddrs { capabilities: Capabilities::from_bits_truncate(caps) }, ProtocolVersion(ver)).unwrap())
}

fn raw_frame(magic: [u8; 2], t: u8, len: u64, body: &[u8]) -> Vec<u8> {
	let mut w = vec![magic[0], magic[1], t];
	w.extend_from_slice(&len.to_be_bytes());
	w.extend_from_slice(body);
	w
}

fn conn_level(cx: &mut Ctx, work: &std::path::Path) {
	// what the peer writes: (name, version, frames before the bad one that must be delivered [heights of the Pings],
	// the stream, must the connection end, C11 regression tag)
	struct Case {
		name: String,
		ver: u32,
		stream: Vec<u8>,
		/// events the node must see, in the `peer` rendering
		want: Vec<String>,
		pongs: usize,
		want_closed: bool,
		empty_tx: bool,
	}
	let mut cases: Vec<Case> = vec![];
	let versions: Vec<u32> = if cx.thorough { VERSIONS.to_vec() } else { vec![1000, 2] };
	for (vi, &ver) in versions.iter().enumerate() {
		// the bytes a refused header announces as its "body": complete valid frames with recognisable contents
		let mut hidden = ping_frame(ver, 666_001);
		hidden.extend_from_slice(&getpeers_frame(ver, 0x0f));
		hidden.extend_from_slice(&ping_frame(ver, 666_002));
		let first = ping_frame(ver, 1_001);
		let mk = |name: &str, bad: Vec<u8>| {
			let mut stream = first.clone();
			stream.extend_from_slice(&bad);
			stream.extend_from_slice(&hidden);
			Case { name: name.to_string(), ver, stream, want: vec!["ping:1001".to_string()], pongs: 1, want_closed: true, empty_tx: false }
		};
		// wrong magic: mainnet magic, one wrong byte
		cases.push(mk("wrong magic (mainnet), Ping header announcing the hidden frames as its body", raw_frame([97, 61], Type::Ping as u8, hidden.len() as u64, &[])));
		cases.push(mk("wrong second magic byte, GetPeerAddrs header", raw_frame([73, 44], Type::GetPeerAddrs as u8, 4, &[])));
		// announced length limit + 1 for the type
		cases.push(mk("Ping announcing 65 bytes (limit 64)", raw_frame([73, 43], Type::Ping as u8, 65, &[])));
		cases.push(mk("GetPeerAddrs announcing 17 bytes (limit 16)", raw_frame([73, 43], Type::GetPeerAddrs as u8, 17, &[])));
		if cx.thorough || vi == 0 {
			cases.push(mk("unknown type 200 announcing 4 x default + 1", raw_frame([73, 43], 200, 4 * (global::max_block_weight() / 21 * 708) + 1, &[])));
			cases.push(mk("Ping announcing 2^64-1 bytes", raw_frame([73, 43], Type::Ping as u8, u64::MAX, &[])));
		}
		// body-level decode error inside a fully consumed body: a PeerAddrs with one address of family tag 9,
		// a BanReason with an undefined reason
		let mut bad_addrs = 1u32.to_be_bytes().to_vec();
		bad_addrs.push(9);
		bad_addrs.extend_from_slice(&[0u8; 18]);
		cases.push(mk("PeerAddrs whose only address has family tag 9 (CorruptedData in a consumed body)", raw_frame([73, 43], Type::PeerAddrs as u8, bad_addrs.len() as u64, &bad_addrs)));
		cases.push(mk("BanReason 77 (CorruptedData in a consumed body)", raw_frame([73, 43], Type::BanReason as u8, 4, &77u32.to_be_bytes())));
		// a Ping body of 15 bytes (short body: IOErr at the decoder)
		cases.push(mk("Ping with a 15-byte body", raw_frame([73, 43], Type::Ping as u8, 15, &[7u8; 15])));
		// control: the same hidden frames sent as what they are
		{
			let mut stream = first.clone();
			stream.extend_from_slice(&hidden);
			// … followed by the EMPTY Headers message (what a peer answers to GetHeaders when it has nothing newer;
			// refused before /repo 11bd5ac16) and one more Ping
			stream.extend_from_slice(&wire(&Msg::new(Type::Headers, Headers { headers: vec![] }, ProtocolVersion(ver)).unwrap()));
			stream.extend_from_slice(&ping_frame(ver, 666_003));
			cases.push(Case {
				name: "control: the same frames without a refused header in front, then an empty Headers message and a Ping".to_string(),
				ver,
				stream,
				want: vec!["ping:1001".into(), "ping:666001".into(), "getpeeraddrs:15".into(), "ping:666002".into(), "headers:0:-".into(), "ping:666003".into()],
				pongs: 4,
				want_closed: false,
				empty_tx: false,
			});
		}
		// (4) regression probes of the repaired defect 0aea8354a: bodies without inputs, outputs and kernels
		let empty_body = {
			let mut b = vec![0u8; 32];
			b.extend_from_slice(&[0u8; 24]);
			b
		};
		for (t, nm) in [(Type::Transaction, "Transaction"), (Type::StemTransaction, "StemTransaction")] {
			let mut stream = raw_frame([73, 43], t as u8, 56, &empty_body);
			stream.extend_from_slice(&ping_frame(ver, 2_002));
			cases.push(Case {
				name: format!("{} without inputs, outputs and kernels (56 bytes), then a Ping", nm),
				ver,
				stream,
				want: vec![format!("payload:{}:56", t as u8), "ping:2002".into()],
				pongs: 1,
				want_closed: false,
				empty_tx: true,
			});
		}
		let hdr = header_pool(cx, 1).pop().unwrap();
		let empty_block = Block { header: hdr, body: TransactionBody::init(Inputs::from(Vec::<Input>::new().as_slice()), &[], &[], false).unwrap() };
		let bb = sv(&empty_block, ver);
		let mut stream = raw_frame([73, 43], Type::Block as u8, bb.len() as u64, &bb);
		stream.extend_from_slice(&ping_frame(ver, 2_003));
		cases.push(Case { name: "Block with an empty body, then a Ping".into(), ver, stream, want: vec![format!("payload:{}:{}", Type::Block as u8, bb.len()), "ping:2003".into()], pongs: 1, want_closed: false, empty_tx: true });
		let cb: CompactBlock = empty_block.clone().into();
		let cbb = sv(&cb, ver);
		let mut stream = raw_frame([73, 43], Type::CompactBlock as u8, cbb.len() as u64, &cbb);
		stream.extend_from_slice(&ping_frame(ver, 2_004));
		cases.push(Case { name: "CompactBlock with an empty body, then a Ping".into(), ver, stream, want: vec![format!("payload:{}:{}", Type::CompactBlock as u8, cbb.len()), "ping:2004".into()], pongs: 1, want_closed: false, empty_tx: true });
	}

	// A. through conn::listen with the recording MessageHandler (lines `codec timed`): the refusals only
	let mut scns: Vec<Scn> = vec![];
	for c in cases.iter().filter(|c| c.want_closed) {
		let mut conv = Conv::new(c.ver);
		conv.stream = c.stream.clone();
		conv.names.push(c.name.clone());
		conv.zones.push(("None", 0, c.stream.len()));
		// what the handler must see: the first Ping only
		let first_body = &c.stream[11..27];
		conv.exp.push(Exp::Body(Type::Ping as u8, hex(first_body)));
		conv.pings = 1;
		scns.push(Scn { name: format!("refused at connection level (listen): {}", c.name), conv, cuts: vec![(27, 300)], outside: false, want_closed: true });
		if cx.thorough {
			// the refused header in a fragment of its own
			let mut conv = Conv::new(c.ver);
			conv.stream = c.stream.clone();
			conv.names.push(c.name.clone());
			conv.zones.push(("None", 0, c.stream.len()));
			conv.exp.push(Exp::Body(Type::Ping as u8, hex(first_body)));
			conv.pings = 1;
			scns.push(Scn { name: format!("refused at connection level (listen, header in its own fragment): {}", c.name), conv, cuts: vec![(27, 300), (38, 20)], outside: false, want_closed: true });
		}
	}
	deliver_all(cx, &scns, work, "conn");

	// B. through a real Peer::accept after a real Hand/Shake (lines `codec peer`)
	let now = Utc::now().timestamp();
	let panics_before = READER_PANICS.load(Ordering::SeqCst);
	let t_all = Instant::now();
	let batch = 12;
	let mut results: Vec<Option<Result<PeerRes, String>>> = (0..cases.len()).map(|_| None).collect();
	let mut start = 0;
	while start < cases.len() {
		let end = (start + batch).min(cases.len());
		let handles: Vec<_> = (start..end)
			.map(|i| {
				// the first Ping on its own, so that its Pong is on the wire before the reader meets the refused frame
				// (the reader thread shuts the socket down at once; a Pong still queued in the writer thread would be lost)
				let sched = if cases[i].want_closed {
					vec![(0u64, cases[i].stream[..27].to_vec()), (300u64, cases[i].stream[27..].to_vec())]
				} else {
					vec![(0u64, cases[i].stream.clone())]
				};
				let ver = cases[i].ver;
				let pongs = cases[i].pongs;
				std::thread::spawn(move || {
					global::set_local_chain_type(ChainTypes::AutomatedTesting);
					run_peer(ver, &sched, pongs)
				})
			})
			.collect();
		for (j, h) in handles.into_iter().enumerate() {
			results[start + j] = h.join().ok();
		}
		start = end;
	}
	let reader_panics = READER_PANICS.load(Ordering::SeqCst) - panics_before;
	for (i, c) in cases.iter().enumerate() {
		let r = match &results[i] {
			Some(Ok(r)) => r,
			Some(Err(e)) => {
				cx.fails += 1;
				cx.out.raw(&format!("#ORACLE-FAIL C19 real Peer set-up failed ({}): {}", c.name, e));
				continue;
			}
			None => {
				cx.fails += 1;
				cx.out.raw(&format!("#ORACLE-FAIL C19 real Peer delivery panicked in the harness: {}", c.name));
				continue;
			}
		};
		cx.stat(if c.want_closed { "peer: refused frames followed by hidden valid frames" } else if c.empty_tx { "peer: empty-bodied transaction / block probes" } else { "peer: control conversations" });
		let hidden_run = r.events.iter().any(|e| e.contains("66600")) || r.events.iter().any(|e| e.starts_with("getpeeraddrs")) && c.want_closed;
		if r.events != c.want || r.pongs != c.pongs || r.closed != c.want_closed || r.version != c.ver.min(1000) {
			cx.fails += 1;
			if c.empty_tx {
				let tag = if reader_panics > 0 { "transaction-without-kernels-panics-peer-reader" } else { "empty-bodied-message-breaks-peer" };
				let txt = format!(
					"{} sent to a real Peer (Protocol + TrackingAdapter), protocol version {}: node saw {:?} (expected {:?}), Ping answered: {} of {}, connection closed: {}, reader-thread panics during this batch: {}; stream {}",
					c.name, c.ver, r.events, c.want, r.pongs, c.pongs, r.closed, reader_panics, hex(&c.stream)
				);
				cx.out.raw(&format!("#ORACLE-FAIL C11 {} {}", tag, txt));
				cx.out.raw(&format!("#ORACLE-FAIL C19 {} {}", tag, txt));
			} else {
				cx.out.raw(&format!(
					"#ORACLE-FAIL C19 refusal at connection level (real Peer){}: {} (protocol version {}): node saw {:?} (expected {:?}), Pongs {} (expected {}), connection closed {} (expected {}); stream {}",
					if hidden_run { " - a message hidden in the announced body of a refused frame was executed" } else { "" },
					c.name, c.ver, r.events, c.want, r.pongs, c.pongs, r.closed, c.want_closed, hex(&c.stream)
				));
			}
		}
		let mut evs = r.events.clone();
		evs.push(format!("pongs:{}", r.pongs));
		evs.push(format!("closed:{}", if r.closed { 1 } else { 0 }));
		let sched_txt = if c.want_closed { format!("0:{},300:{}", hex(&c.stream[..27]), hex(&c.stream[27..])) } else { format!("0:{}", hex(&c.stream)) };
		cx.out.line(&format!("codec peer {} {} [{}]", c.ver, now, sched_txt), &format!("[{}]", evs.join(";")));
		if c.want_closed && c.name.contains("CorruptedData") {
			cx.out.raw(&format!("#STAT peer: body-level decode error ({}): the code {} (property allows closing or skipping exactly that message)", c.name, if r.closed { "CLOSES the connection" } else { "skips the message and goes on" }));
		}
	}
	if reader_panics > 0 {
		cx.fails += 1;
		cx.out.raw(&format!("#ORACLE-FAIL C11 transaction-without-kernels-panics-peer-reader {} panic(s) in peer_read / peer_write threads during the real-Peer deliveries", reader_panics));
	}
	cx.out.raw(&format!("#STAT peer: {} deliveries to a real Peer in {} ms, reader-thread panics: {}", cases.len(), t_all.elapsed().as_millis(), reader_panics));
}

// ---------------------------------------------------------------------------------------------
// bytes that arrive TOGETHER WITH the handshake message (same write / same TCP segment)

/// `accept`: a raw socket writes `sched` = its Hand followed by further frames to a real `Peer::accept`;
/// `connect`: a real `Peer::connect` dials a raw listener, which reads the Hand and then writes `sched` =
/// its Shake followed by further frames
fn run_hs_then(accept: bool, ver: u32, sched: &[(u64, Vec<u8>)], want_pongs: usize) -> Result<PeerRes, String> {
	let g = Hash::from_vec(&[7u8; 32]);
	let listener = TcpListener::bind("127.0.0.1:0").unwrap();
	let addr = listener.local_addr().unwrap();
	let adapter = Arc::new(RecAdapter { ver: ver.min(1000), log: Mutex::new(vec![]) });
	let ad2 = adapter.clone();
	let self_addr = PeerAddr("127.0.0.1:3414".parse().unwrap());
	if accept {
		let mut client = TcpStream::connect(addr).unwrap();
		client.set_nodelay(true).unwrap();
		let (server, _) = listener.accept().unwrap();
		let t = std::thread::spawn(move || {
			global::set_local_chain_type(ChainTypes::AutomatedTesting);
			let hs = Handshake::new(g, P2PConfig::default());
			Peer::accept(server, Capabilities::default(), Difficulty::from_num(9), &hs, ad2).map_err(|e| err_name(&e))
		});
		let (pongs, closed) = drive_client(&mut client, sched, want_pongs);
		let peer = t.join().map_err(|_| "accept thread panicked".to_string())??;
		peer.stop();
		let _ = client.shutdown(Shutdown::Both);
		let events = adapter.log.lock().unwrap().clone();
		Ok(PeerRes { events, pongs, closed, version: peer.info.version.value() })
	} else {
		let t = std::thread::spawn(move || {
			global::set_local_chain_type(ChainTypes::AutomatedTesting);
			let hs = Handshake::new(g, P2PConfig::default());
			let conn = TcpStream::connect(addr).map_err(|e| e.to_string())?;
			Peer::connect(conn, Capabilities::default(), Difficulty::from_num(9), self_addr, &hs, ad2).map_err(|e| err_name(&e))
		});
		let (mut remote, _) = listener.accept().unwrap();
		remote.set_nodelay(true).unwrap();
		// the node's Hand
		let _ = remote.set_read_timeout(Some(Duration::from_secs(5)));
		let mut head = [0u8; 11];
		remote.read_exact(&mut head).map_err(|e| format!("no Hand: {}", e))?;
		let mut l = [0u8; 8];
		l.copy_from_slice(&head[3..11]);
		let mut body = vec![0u8; u64::from_be_bytes(l) as usize];
		remote.read_exact(&mut body).map_err(|e| format!("short Hand: {}", e))?;
		let (pongs, closed) = drive_client(&mut remote, sched, want_pongs);
		let peer = t.join().map_err(|_| "connect thread panicked".to_string())??;
		peer.stop();
		let _ = remote.shutdown(Shutdown::Both);
		let events = adapter.log.lock().unwrap().clone();
		Ok(PeerRes { events, pongs, closed, version: peer.info.version.value() })
	}
}

fn hs_then(cx: &mut Ctx) {
	let g = Hash::from_vec(&[7u8; 32]);
	let self_addr = PeerAddr("127.0.0.1:3414".parse().unwrap());
	struct Job {
		accept: bool,
		ver: u32,
		frags: Vec<Vec<u8>>,
		want: Vec<String>,
		pongs: usize,
		what: String,
	}
	let mut jobs: Vec<Job> = vec![];
	let versions: Vec<u32> = if cx.thorough { VERSIONS.to_vec() } else { vec![1000, 2] };
	for (vi, &ver) in versions.iter().enumerate() {
		for accept in [true, false] {
			// the handshake message of the remote side
			let hs_msg = if accept {
				let hand = Hand {
					version: ProtocolVersion(ver),
					capabilities: Capabilities::default(),
					nonce: cx.rng.next(),
					genesis: g,
					total_difficulty: Difficulty::from_num(1),
					sender_addr: self_addr,
					receiver_addr: self_addr,
					user_agent: "verif/hs-then é".to_string(),
				};
				wire(&Msg::new(Type::Hand, hand, ProtocolVersion(ver)).unwrap())
			} else {
				let shake = Shake {
					version: ProtocolVersion(ver),
					capabilities: Capabilities::default(),
					genesis: g,
					total_difficulty: Difficulty::from_num(1),
					user_agent: "verif/hs-then é".to_string(),
				};
				wire(&Msg::new(Type::Shake, shake, ProtocolVersion(ver)).unwrap())
			};
			// what follows it in the same write(s): variants with 1, 2 and 5 messages
			for variant in 0..3usize {
				let mut stream = hs_msg.clone();
				let mut want: Vec<String> = vec![];
				let mut pongs = 0;
				let h1 = 70_000 + cx.rng.below(1000);
				stream.extend_from_slice(&ping_frame(ver, h1));
				want.push(format!("ping:{}", h1));
				pongs += 1;
				if variant >= 1 {
					stream.extend_from_slice(&getpeers_frame(ver, 0x0f));
					want.push("getpeeraddrs:15".to_string());
				}
				if variant >= 2 {
					// a Headers message of 35 headers of different sizes, then another Ping
					let bits: Vec<u8> = (0..35).map(|i| [10u8, 14, 12, 16, 11][(i + vi) % 5]).collect();
					let hs = sized_headers(cx, &bits);
					let c1: Vec<u8> = hs[..32].iter().flat_map(|h| sv(h, ver)).collect();
					let c2: Vec<u8> = hs[32..].iter().flat_map(|h| sv(h, ver)).collect();
					want.push(format!("headers:32:{}", hex(&c1)));
					want.push(format!("headers:3:{}", hex(&c2)));
					stream.extend_from_slice(&wire(&Msg::new(Type::Headers, Headers { headers: hs }, ProtocolVersion(ver)).unwrap()));
					let h2 = 80_000 + cx.rng.below(1000);
					stream.extend_from_slice(&ping_frame(ver, h2));
					want.push(format!("ping:{}", h2));
					pongs += 1;
				}
				let e = hs_msg.len();
				// one write; every single split point around the end of the handshake message; a few multi-splits
				let mut plans: Vec<Vec<usize>> = vec![vec![]];
				let lo = if cx.thorough || variant == 0 { e.saturating_sub(12) } else { e.saturating_sub(2) };
				let hi = if cx.thorough || variant == 0 { e + 28 } else { e + 2 };
				for p in lo..=hi.min(stream.len() - 1) {
					if p > 0 {
						plans.push(vec![p]);
					}
				}
				plans.push(vec![e - 1, e, e + 1]);
				plans.push(vec![1, e + 5, e + 11, e + 12]);
				if cx.thorough {
					for _ in 0..4 {
						let mut ps: Vec<usize> = (0..4).map(|_| 1 + cx.rng.below(stream.len() as u64 - 1) as usize).collect();
						ps.sort_unstable();
						ps.dedup();
						plans.push(ps);
					}
				}
				for ps in plans {
					jobs.push(Job {
						accept,
						ver,
						frags: split_at_points(&stream, &ps),
						want: want.clone(),
						pongs,
						what: format!("{} + {} message(s) behind it, cuts {:?} (handshake message ends at {})", if accept { "Hand to Peer::accept" } else { "Shake to Peer::connect" }, want.len(), ps, e),
					});
				}
			}
		}
	}
	let now = Utc::now().timestamp();
	let t_all = Instant::now();
	let batch = 24;
	let mut results: Vec<Option<Result<PeerRes, String>>> = (0..jobs.len()).map(|_| None).collect();
	let mut start = 0;
	while start < jobs.len() {
		let end = (start + batch).min(jobs.len());
		let handles: Vec<_> = (start..end)
			.map(|i| {
				let sched: Vec<(u64, Vec<u8>)> = jobs[i].frags.iter().map(|f| (2u64, f.clone())).collect();
				let (accept, ver, pongs) = (jobs[i].accept, jobs[i].ver, jobs[i].pongs);
				std::thread::spawn(move || {
					global::set_local_chain_type(ChainTypes::AutomatedTesting);
					run_hs_then(accept, ver, &sched, pongs)
				})
			})
			.collect();
		for (j, h) in handles.into_iter().enumerate() {
			results[start + j] = h.join().ok();
		}
		start = end;
	}
	for (i, job) in jobs.iter().enumerate() {
		let dir = if job.accept { "accept" } else { "connect" };
		cx.stat(&format!("hs-then: deliveries to Peer::{} with {} fragment(s)", dir, if job.frags.len() > 3 { ">3".to_string() } else { job.frags.len().to_string() }));
		let rs = match &results[i] {
			Some(Ok(r)) => {
				let mut evs = r.events.clone();
				evs.push(format!("pongs:{}", r.pongs));
				evs.push(format!("closed:{}", if r.closed { 1 } else { 0 }));
				if r.events != job.want || r.pongs != job.pongs || r.closed || r.version != job.ver.min(1000) {
					cx.fails += 1;
					cx.out.raw(&format!(
						"#ORACLE-FAIL C19 messages written together with the handshake message were lost / not delivered exactly once in order: {} (protocol version {}): node saw {:?} expected {:?}; Pongs {} of {}; connection closed {}; negotiated version {}; fragments {}",
						job.what, job.ver,
						r.events.iter().map(|e| e.chars().take(40).collect::<String>()).collect::<Vec<_>>(),
						job.want.iter().map(|e| e.chars().take(40).collect::<String>()).collect::<Vec<_>>(),
						r.pongs, job.pongs, r.closed, r.version, hex_list(&job.frags).chars().take(700).collect::<String>()
					));
				}
				format!("[{}]", evs.join(";"))
			}
			Some(Err(e)) => {
				cx.fails += 1;
				cx.out.raw(&format!("#ORACLE-FAIL C19 handshake failed although the handshake message is well-formed ({}): {}; fragments {}", job.what, e, hex_list(&job.frags).chars().take(400).collect::<String>()));
				"[handshake-failed]".to_string()
			}
			None => {
				cx.fails += 1;
				cx.out.raw(&format!("#ORACLE-FAIL C19 hs-then delivery panicked in the harness: {}", job.what));
				"[panic]".to_string()
			}
		};
		cx.out.line(&format!("codec hsthen {} {} {} {}", dir, job.ver.min(1000), now, hex_list(&job.frags)), &rs);
	}
	cx.out.raw(&format!("#STAT hs-then: {} deliveries in {} ms ({} at a time)", jobs.len(), t_all.elapsed().as_millis(), batch));
}

// ---------------------------------------------------------------------------------------------
// self-connection detection over ONE long-lived Handshake

/// wait until the `Hand` frame is readable on `s` (without consuming it) and return its nonce
fn peek_hand_nonce(s: &TcpStream) -> Option<u64> {
	let mut buf = [0u8; 11 + 16];
	let t0 = Instant::now();
	loop {
		match s.peek(&mut buf) {
			Ok(n) if n >= buf.len() => break,
			Ok(0) => return None,
			Ok(_) => {}
			Err(_) => return None,
		}
		if t0.elapsed() > Duration::from_secs(5) {
			return None;
		}
		std::thread::sleep(Duration::from_millis(1));
	}
	let mut n = [0u8; 8];
	n.copy_from_slice(&buf[11 + 8..11 + 16]);
	Some(u64::from_be_bytes(n))
}

fn res_str(r: &Result<u32, String>) -> String {
	match r {
		Ok(v) => format!("ok {}", v),
		Err(e) => format!("err {}", e),
	}
}

fn nonce_ring(cx: &mut Ctx) {
	let g = Hash::from_vec(&[7u8; 32]);
	let caps = Capabilities::default();
	let self_addr = PeerAddr("127.0.0.1:3414".parse().unwrap());
	let hs = Arc::new(Handshake::new(g, P2PConfig::default()));
	let t0 = Instant::now();
	cx.out.line("codec ring new", "ok");
	let mut history: Vec<u64> = vec![];

	// one outbound attempt of `hs`; the listener either hangs up after the Hand or is another node that accepts
	let attempt = |hs: &Arc<Handshake>, succeed: bool| -> (Option<u64>, Result<u32, String>) {
		let (mut a, mut b) = hs_pair();
		let t = std::thread::spawn(move || {
			global::set_local_chain_type(ChainTypes::AutomatedTesting);
			let nonce = peek_hand_nonce(&b);
			if succeed {
				let other = Handshake::new(g, P2PConfig::default());
				let _ = other.accept(caps, Difficulty::from_num(5), &mut b);
			}
			let _ = b.shutdown(Shutdown::Both);
			nonce
		});
		let r = hs.initiate(caps, Difficulty::from_num(3), self_addr, &mut a).map(|i| i.version.value()).map_err(|e| err_name(&e));
		let nonce = t.join().unwrap();
		let _ = a.shutdown(Shutdown::Both);
		(nonce, r)
	};
	// `hs` dials itself: its own `accept` on the other end
	let self_dial = |hs: &Arc<Handshake>| -> (Option<u64>, Result<u32, String>, bool) {
		let (mut a, mut b) = hs_pair();
		let hs2 = hs.clone();
		let t = std::thread::spawn(move || {
			global::set_local_chain_type(ChainTypes::AutomatedTesting);
			let nonce = peek_hand_nonce(&b);
			let r = hs2.accept(caps, Difficulty::from_num(5), &mut b).map(|i| i.version.value()).map_err(|e| err_name(&e));
			let _ = b.shutdown(Shutdown::Both);
			(nonce, r)
		});
		let ra = hs.initiate(caps, Difficulty::from_num(3), self_addr, &mut a).map(|i| i.version.value());
		let (nonce, rb) = t.join().unwrap();
		(nonce, rb, ra.is_ok())
	};
	// a scripted peer presents a Hand with our genesis carrying `nonce` to `hs.accept`
	let replay = |hs: &Arc<Handshake>, nonce: u64| -> Result<u32, String> {
		let hand = Hand {
			version: ProtocolVersion(1000),
			capabilities: caps,
			nonce,
			genesis: g,
			total_difficulty: Difficulty::from_num(1),
			sender_addr: self_addr,
			receiver_addr: self_addr,
			user_agent: "verif/replay".to_string(),
		};
		let bytes = wire(&Msg::new(Type::Hand, hand, ProtocolVersion(1000)).unwrap());
		let (mut a, mut b) = hs_pair();
		let t = std::thread::spawn(move || {
			let _ = a.write_all(&bytes);
			let _ = a.shutdown(Shutdown::Write);
			let mut sink = vec![];
			let _ = a.read_to_end(&mut sink);
		});
		let r = hs.accept(caps, Difficulty::from_num(1), &mut b).map(|i| i.version.value()).map_err(|e| err_name(&e));
		let _ = b.shutdown(Shutdown::Both);
		let _ = t.join();
		r
	};

	// self-dials after exactly this many earlier `initiate()` calls of the same object
	let checkpoints: Vec<usize> = if cx.thorough { vec![0, 1, 99, 100, 101, 105, 250] } else { vec![0, 1, 99, 100, 101, 105] };
	let mut replays_done = 0;
	for &cp in &checkpoints {
		while history.len() < cp {
			let succeed = history.len() % 10 == 3;
			let (nonce, r) = attempt(&hs, succeed);
			cx.stat(if succeed { "ring: outbound attempts that succeeded (another node accepted)" } else { "ring: outbound attempts that failed (listener hung up after the Hand)" });
			match nonce {
				Some(n) => {
					history.push(n);
					cx.out.line(&format!("codec ring push {}", n), &res_str(&r));
				}
				None => {
					cx.fails += 1;
					cx.out.raw("#ORACLE-FAIL C19 ring: no Hand arrived for an outbound attempt");
					return;
				}
			}
			let ok = if succeed { r == Ok(1000) } else { r == Err("Connection".to_string()) };
			if !ok {
				cx.out.raw(&format!("#STAT ring: unexpected outcome of an outbound attempt (succeed={}): {}", succeed, res_str(&r)));
			}
		}
		let prior = history.len();
		let (nonce, rb, ra_ok) = self_dial(&hs);
		cx.stat("ring: self dials");
		let n = match nonce {
			Some(n) => n,
			None => {
				cx.fails += 1;
				cx.out.raw("#ORACLE-FAIL C19 ring: no Hand arrived for a self dial");
				return;
			}
		};
		history.push(n);
		if rb != Err("PeerWithSelf".to_string()) || ra_ok {
			cx.fails += 1;
			cx.out.raw(&format!(
				"#ORACLE-FAIL C19 connection to itself not refused after {} earlier outbound attempts of the same Handshake: accept {} initiate ok={} (nonce {})",
				prior, res_str(&rb), ra_ok, n
			));
		}
		cx.out.raw(&format!("#STAT ring: self dial after {} prior initiate() calls: accept {}", prior, res_str(&rb)));
		cx.out.line(&format!("codec ring self {}", n), &res_str(&rb));
		// replays of older nonces: most recent, oldest retained, just evicted, one older
		if history.len() >= 2 && (history.len() <= 3 || history.len() >= 102) && replays_done < 3 {
			replays_done += 1;
			let len = history.len();
			for back in [0usize, 1, 97, 98, 99, 100, 150] {
				if back >= len {
					continue;
				}
				let nonce = history[len - 1 - back];
				let r = replay(&hs, nonce);
				cx.stat("ring: replays of an older nonce");
				cx.out.raw(&format!(
					"#STAT ring: Hand replaying the nonce drawn {} attempts before the latest one (ring capacity NONCES_CAP-1 = 99), {} attempts so far: accept {}",
					back, len, res_str(&r)
				));
				// retained: the latest NONCES_CAP-1 = 99 nonces (back 0..=98)
				let want = if back <= 98 { Err("PeerWithSelf".to_string()) } else { Ok(1000) };
				if r != want {
					cx.out.raw(&format!("#STAT ring: replay {} attempts back gave {} where the bounded-queue model says {}", back, res_str(&r), res_str(&want)));
				}
				cx.out.line(&format!("codec ring replay {}", nonce), &res_str(&r));
			}
		}
	}
	cx.out.raw(&format!("#STAT ring: {} initiate() calls on one Handshake object in {} ms (write_message spaces them 150 ms apart)", history.len(), t0.elapsed().as_millis()));
}

fn main() {
	quiet_panics();
	// count panics of the threads conn::listen spawns (they cannot be joined from here); stay quiet
	std::panic::set_hook(Box::new(|_| {
		let name = std::thread::current().name().unwrap_or("").to_string();
		if name == "peer_read" || name == "peer_write" {
			READER_PANICS.fetch_add(1, Ordering::SeqCst);
		}
	}));
	global::set_local_chain_type(ChainTypes::AutomatedTesting);
	// the reader / writer threads `conn::listen` spawns have no thread-local chain type
	global::init_global_chain_type(ChainTypes::AutomatedTesting);
	let work = std::path::PathBuf::from(std::env::var("VERIF_WORK").expect("VERIF_WORK"));
	std::fs::create_dir_all(&work).unwrap();
	let mut cx = Ctx { out: Out::stdout(), rng: Rng::new(seed_from_env()), thorough: tier_thorough(), stats: BTreeMap::new(), fails: 0, pool: vec![], sized_pool: BTreeMap::new() };
	let mode = std::env::args().nth(1).unwrap_or_else(|| "all".to_string());
	if mode == "all" || mode == "faithful" {
		faithful(&mut cx, &work);
		headers_mixed(&mut cx);
		ext::list_limits(&mut cx, &work);
	}
	if mode == "all" || mode == "refuse" {
		refusals(&mut cx);
		headers_inconsistent(&mut cx);
		headers_excess(&mut cx);
		ext::headers_short(&mut cx);
		ext::limits_sweep(&mut cx);
	}
	if mode == "all" || mode == "handshake" {
		handshakes(&mut cx);
		addr_messages(&mut cx);
		utf8_user_agents(&mut cx);
	}
	if mode == "all" || mode == "conn" {
		conn_level(&mut cx, &work);
	}
	if mode == "all" || mode == "hsthen" {
		hs_then(&mut cx);
		ext::handshake_frag(&mut cx);
	}
	if mode == "all" || mode == "timed" {
		timed(&mut cx, &work);
	}
	if mode == "all" || mode == "attach" {
		attachments(&mut cx, &work);
	}
	if mode == "all" || mode == "ring" {
		nonce_ring(&mut cx);
	}
	if mode == "all" || mode == "duplex" {
		ext::duplex(&mut cx, &work);
	}
	if mode == "all" || mode == "hconn" {
		ext::handler_results(&mut cx, &work);
	}
	if mode == "all" || mode == "payload" {
		ext::payload_every_split(&mut cx, &work);
	}
	if mode == "all" || mode == "glue" {
		glue::glue(&mut cx, &work);
		more::io_points(&mut cx, &work);
	}
	if mode == "all" || mode == "csend" {
		more::concurrent_senders(&mut cx);
	}
	if mode == "all" || mode == "psend" {
		more::peer_concurrent(&mut cx, &work);
	}
	if mode == "all" || mode == "overflow" {
		more::channel_overflow(&mut cx);
	}
	if mode == "all" || mode == "peers" {
		more::peers_level(&mut cx, &work);
		more::server_accept(&mut cx, &work);
		more::response_write_fails(&mut cx, &work);
		more::clean_run(&mut cx, &work);
	}
	if mode == "wstall" {
		more::writer_stall(&mut cx);
	}
	if mode == "all" || mode == "wtime" {
		more::write_timeouts(&mut cx);
	}
	if mode == "all" || mode == "hstime" {
		more::handshake_timeouts(&mut cx);
	}
	if mode == "all" || mode == "hsw" {
		ext::handshake_wire(&mut cx);
		ext::handshake_caps(&mut cx);
	}
	let stats = std::mem::take(&mut cx.stats);
	for (k, v) in stats {
		cx.out.raw(&format!("#STAT {}: {}", k, v));
	}
	cx.out.raw(&format!("#STAT oracle failures: {}", cx.fails));
	cx.out.flush();
	let _ = Hashed::hash(&0u8);
}
