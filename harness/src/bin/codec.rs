//! C19 correspondence: the real `Codec` (through the `verif_export` hook) reads, from a loopback
//! `TcpStream`, byte streams produced by the real `write_message`, delivered in chosen fragments.
//!
//! Lines (see lean/GrinVerif/Drv/CodecD.lean):
//!   codec run <ver> <frags> => [ev;ev;…]
//!       frags = `[hex,hex,…]` in the order written; events (in the order `Codec::read` returned them):
//!         body:<t>:<canon>:<bytes_read>      a decoded message (canon = value re-serialised)
//!         unknown:<t>:<bytes_read>
//!         headers:<n>:<remaining>:<canon of the batch>:<bytes_read>
//!         att:<read>:<left>:<sum>:<bytes_read>
//!         end:<Error>:<bytes_read>[:<maxreq>] how the reader loop ended
//!   codec hs accept <our-genesis> <stream-hex>   => ok <version> | err <E>
//!   codec hs initiate <our-genesis> <stream-hex> => ok <version> | err <E>
//!   codec hs self => err PeerWithSelf
//!
//! Oracle evaluated here on the implementation (`#ORACLE-FAIL C19 …`): the sequence read differs from
//! the sequence written (types, canonical bodies, header batches, attachment bytes) for some
//! fragmentation; a refused frame header consumed more than the header or made the codec request
//! more than 64 KiB; handshake settles on something else than min(version) / accepts a different
//! genesis / accepts itself.
use chrono::Utc;
use grin_core::core::hash::{Hash, Hashed};
use grin_core::core::{BlockHeader, HeaderVersion};
use grin_core::global::{self, ChainTypes};
use grin_core::pow::{Difficulty, Proof, ProofOfWork};
use grin_core::ser::{self, ProtocolVersion, Writeable};
use grin_keychain::BlindingFactor;
use grin_p2p::handshake::Handshake;
use grin_p2p::msg::{
	write_message, BanReason, GetPeerAddrs, Hand, Headers, Locator, Message, Msg, MsgHeader, PeerAddrs,
	Ping, Pong, SegmentRequest, Shake, TxHashSetArchive, TxHashSetRequest, Type,
};
use grin_p2p::types::{AttachmentMeta, Capabilities, P2PConfig, PeerAddr, ReasonForBan};
use grin_p2p::verif_export::{Codec, Tracker};
use gvharness::*;
use std::alloc::{GlobalAlloc, Layout, System};
use std::collections::BTreeMap;
use std::io::{Read, Write};
use std::net::{Shutdown, TcpListener, TcpStream};
use std::sync::atomic::{AtomicUsize, Ordering};
use std::sync::Arc;

// largest single allocation request (whole process; the writer thread only writes)
static MAX_REQ: AtomicUsize = AtomicUsize::new(0);
struct Counting;
unsafe impl GlobalAlloc for Counting {
	unsafe fn alloc(&self, l: Layout) -> *mut u8 {
		MAX_REQ.fetch_max(l.size(), Ordering::Relaxed);
		System.alloc(l)
	}
	unsafe fn alloc_zeroed(&self, l: Layout) -> *mut u8 {
		MAX_REQ.fetch_max(l.size(), Ordering::Relaxed);
		System.alloc_zeroed(l)
	}
	unsafe fn dealloc(&self, p: *mut u8, l: Layout) {
		System.dealloc(p, l)
	}
	unsafe fn realloc(&self, p: *mut u8, l: Layout, n: usize) -> *mut u8 {
		MAX_REQ.fetch_max(n, Ordering::Relaxed);
		System.realloc(p, l, n)
	}
}
#[global_allocator]
static GLOBAL: Counting = Counting;

const VERSIONS: [u32; 4] = [1, 2, 3, 1000];

struct Ctx {
	out: Out,
	rng: Rng,
	thorough: bool,
	stats: BTreeMap<String, u64>,
	fails: u64,
	pool: Vec<BlockHeader>,
}
impl Ctx {
	fn stat(&mut self, k: &str) {
		*self.stats.entry(k.to_string()).or_insert(0) += 1;
	}
}

fn sv<T: Writeable>(v: &T, ver: u32) -> Vec<u8> {
	ser::ser_vec(v, ProtocolVersion(ver)).unwrap()
}

fn hash32(rng: &mut Rng) -> Hash {
	Hash::from_vec(&rng.bytes(32))
}

fn gen_addr(rng: &mut Rng) -> PeerAddr {
	use std::net::{IpAddr, Ipv4Addr, Ipv6Addr, SocketAddr};
	let port = rng.next() as u16;
	if rng.chance(2, 3) {
		let b = rng.bytes(4);
		PeerAddr(SocketAddr::new(IpAddr::V4(Ipv4Addr::new(b[0], b[1], b[2], b[3])), port))
	} else {
		// a genuine V6 address (first segment non-zero: `to_ipv4()` is None, so it round-trips)
		let s: Vec<u16> = (0..8).map(|i| if i == 0 { 0x2001 } else { rng.next() as u16 }).collect();
		PeerAddr(SocketAddr::new(
			IpAddr::V6(Ipv6Addr::new(s[0], s[1], s[2], s[3], s[4], s[5], s[6], s[7])),
			port,
		))
	}
}

/// a header that passes `UntrustedBlockHeader::read` on AutomatedTesting (which verifies the proof of
/// work: a real cuckatoo-10 solution is mined)
fn gen_header(rng: &mut Rng) -> BlockHeader {
	let height = 1000 + rng.below(1 << 30);
	let mut h = BlockHeader {
		version: HeaderVersion(5),
		height,
		prev_hash: hash32(rng),
		prev_root: hash32(rng),
		timestamp: chrono::DateTime::<Utc>::from_timestamp(1_600_000_000 + rng.below(100_000_000) as i64, 0).unwrap(),
		output_root: hash32(rng),
		range_proof_root: hash32(rng),
		kernel_root: hash32(rng),
		total_kernel_offset: BlindingFactor::from_slice(&rng.bytes(32)),
		output_mmr_size: *rng.pick(&[0u64, 1, 3, 4, 7]),
		kernel_mmr_size: *rng.pick(&[0u64, 1, 3, 4, 7]),
		pow: ProofOfWork {
			total_difficulty: Difficulty::from_num(rng.below(1 << 40)),
			secondary_scaling: rng.next() as u32,
			nonce: rng.next(),
			proof: Proof { edge_bits: 10, nonces: vec![0; 8] },
		},
	};
	grin_core::pow::pow_size(&mut h, Difficulty::from_num(1), global::proofsize(), global::min_edge_bits()).expect("mine header");
	h
}

/// mined headers are reused across messages (mining is the expensive part)
fn header_pool(cx: &mut Ctx, n: usize) -> Vec<BlockHeader> {
	while cx.pool.len() < n {
		let h = gen_header(&mut cx.rng);
		cx.pool.push(h);
	}
	let start = cx.rng.below((cx.pool.len() - n + 1) as u64) as usize;
	cx.pool[start..start + n].to_vec()
}

/// what was written, for the oracle: expected events without byte counts
#[derive(Clone, Debug, PartialEq)]
enum Exp {
	Body(u8, String),
	Unknown(u8),
	Headers(usize, u64, String),
	Att(usize, usize, u64),
}

fn checksum(b: &[u8]) -> u64 {
	let mut s: u64 = 0;
	for (i, x) in b.iter().enumerate() {
		s = (s + (*x as u64) * ((i as u64 % 251) + 1)) % 4294967291;
	}
	s
}

/// serialise one message through the real `write_message` (fresh tracker: no pacing delay)
fn wire(msg: &Msg) -> Vec<u8> {
	let mut v: Vec<u8> = Vec::new();
	write_message(&mut v, msg, Arc::new(Tracker::new())).unwrap();
	v
}

/// one random message: wire bytes and the events the reader must produce
fn gen_message(cx: &mut Ctx, ver: u32, kind: u64, work: &std::path::Path) -> (Vec<u8>, Vec<Exp>, String) {
	let r = &mut cx.rng;
	let v = ProtocolVersion(ver);
	macro_rules! plain {
		($t:expr, $body:expr, $name:expr) => {{
			let body = $body;
			let canon = hex(&sv(&body, ver));
			let m = Msg::new($t, body, v).unwrap();
			(wire(&m), vec![Exp::Body($t as u8, canon)], $name.to_string())
		}};
	}
	match kind {
		0 => plain!(Type::Ping, Ping { total_difficulty: Difficulty::from_num(r.next()), height: r.next() }, "Ping"),
		1 => plain!(Type::Pong, Pong { total_difficulty: Difficulty::from_num(r.next()), height: r.next() }, "Pong"),
		2 => plain!(Type::GetPeerAddrs, GetPeerAddrs { capabilities: Capabilities::from_bits_truncate(r.next() as u32) }, "GetPeerAddrs"),
		3 => {
			let n = *r.pick(&[0usize, 1, 3, 9]);
			plain!(Type::PeerAddrs, PeerAddrs { peers: (0..n).map(|_| gen_addr(r)).collect() }, "PeerAddrs")
		}
		4 => {
			let n = *r.pick(&[0usize, 1, 2, 20]);
			plain!(Type::GetHeaders, Locator { hashes: (0..n).map(|_| hash32(r)).collect() }, "GetHeaders")
		}
		5 => plain!(Type::GetBlock, hash32(r), "GetBlock"),
		6 => plain!(Type::GetCompactBlock, hash32(r), "GetCompactBlock"),
		7 => plain!(Type::GetTransaction, hash32(r), "GetTransaction"),
		8 => plain!(Type::TransactionKernel, hash32(r), "TransactionKernel"),
		9 => plain!(Type::TxHashSetRequest, TxHashSetRequest { hash: hash32(r), height: r.next() }, "TxHashSetRequest"),
		10 => {
			let reasons = [ReasonForBan::None, ReasonForBan::BadBlock, ReasonForBan::ManualBan, ReasonForBan::BadHandshake];
			plain!(Type::BanReason, BanReason { ban_reason: *r.pick(&reasons) }, "BanReason")
		}
		11 => {
			let t = *r.pick(&[Type::GetOutputBitmapSegment, Type::GetOutputSegment, Type::GetRangeProofSegment, Type::GetKernelSegment]);
			let req = SegmentRequest {
				block_hash: hash32(r),
				identifier: grin_core::core::SegmentIdentifier { height: r.below(14) as u8, idx: r.below(1 << 20) },
			};
			plain!(t, req, "SegmentRequest")
		}
		12 => {
			// unknown type byte with a body: written by hand (there is no `Type` for it)
			let t = *r.pick(&[29u8, 30, 77, 200, 255]);
			let len = *r.pick(&[0usize, 1, 5, 40, 300]);
			let body = r.bytes(len);
			let mut w = sv(&MsgHeader::new(Type::Ping, len as u64), ver);
			w[2] = t;
			w.extend_from_slice(&body);
			(w, vec![Exp::Unknown(t)], "Unknown".to_string())
		}
		13 => {
			// Headers: n >= 1 items, read back in batches of 32
			let n = *r.pick(&[1usize, 2, 31, 32, 33, 64, 65]);
			let n = if n > 3 && !cx.thorough && r.chance(1, 2) { 3 } else { n };
			let hs: Vec<BlockHeader> = header_pool(cx, n);
			let mut exp = vec![];
			let mut i = 0;
			while i < n {
				let j = (i + 32).min(n);
				let canon: Vec<u8> = hs[i..j].iter().flat_map(|h| sv(h, ver)).collect();
				exp.push(Exp::Headers(j - i, (n - j) as u64, hex(&canon)));
				i = j;
			}
			let m = Msg::new(Type::Headers, Headers { headers: hs }, v).unwrap();
			(wire(&m), exp, "Headers".to_string())
		}
		_ => {
			// TxHashSetArchive followed by the attachment bytes
			let size = *r.pick(&[0usize, 1, 100, 47_999, 48_000, 48_001, 100_000]);
			let size = if size > 1000 && !cx.thorough && r.chance(2, 3) { 777 } else { size };
			let data = r.bytes(size);
			let path = work.join(format!("att-{}.bin", r.next()));
			std::fs::write(&path, &data).unwrap();
			let body = TxHashSetArchive { hash: hash32(r), height: r.next(), bytes: size as u64 };
			let canon = hex(&sv(&body, ver));
			let mut m = Msg::new(Type::TxHashSetArchive, body, v).unwrap();
			m.add_attachment(std::fs::File::open(&path).unwrap());
			let w = wire(&m);
			let _ = std::fs::remove_file(&path);
			let mut exp = vec![Exp::Body(Type::TxHashSetArchive as u8, canon)];
			if size == 0 {
				exp.push(Exp::Att(0, 0, 0));
			}
			let mut off = 0;
			while off < size {
				let n = (size - off).min(48_000);
				exp.push(Exp::Att(n, size - off - n, checksum(&data[off..off + n])));
				off += n;
			}
			(w, exp, "TxHashSetArchive+attachment".to_string())
		}
	}
}

fn err_name(e: &grin_p2p::Error) -> String {
	use grin_p2p::Error as E;
	match e {
		E::Serialization(s) => format!(
			"Ser:{}",
			match s {
				ser::Error::IOErr(_, _) => "IOErr",
				ser::Error::UnexpectedData { .. } => "UnexpectedData",
				ser::Error::CorruptedData => "CorruptedData",
				ser::Error::CountError => "CountError",
				ser::Error::TooLargeReadErr => "TooLargeReadErr",
				ser::Error::SortError => "SortError",
				ser::Error::DuplicateError => "DuplicateError",
				ser::Error::InvalidBlockVersion => "InvalidBlockVersion",
				ser::Error::UnsupportedProtocolVersion => "UnsupportedProtocolVersion",
				_ => "Other",
			}
		),
		E::Connection(_) => "Connection".to_string(),
		E::BadMessage => "BadMessage".to_string(),
		E::UnexpectedMessage => "UnexpectedMessage".to_string(),
		E::PeerWithSelf => "PeerWithSelf".to_string(),
		E::GenesisMismatch { .. } => "GenesisMismatch".to_string(),
		E::ConnectionClose => "ConnectionClose".to_string(),
		_ => "Other".to_string(),
	}
}

fn canon_message(m: &Message, ver: u32) -> Option<(u8, String)> {
	Some(match m {
		Message::Ping(x) => (Type::Ping as u8, hex(&sv(x, ver))),
		Message::Pong(x) => (Type::Pong as u8, hex(&sv(x, ver))),
		Message::BanReason(x) => (Type::BanReason as u8, hex(&sv(x, ver))),
		Message::TransactionKernel(x) => (Type::TransactionKernel as u8, hex(&sv(x, ver))),
		Message::GetTransaction(x) => (Type::GetTransaction as u8, hex(&sv(x, ver))),
		Message::GetBlock(x) => (Type::GetBlock as u8, hex(&sv(x, ver))),
		Message::GetCompactBlock(x) => (Type::GetCompactBlock as u8, hex(&sv(x, ver))),
		Message::GetHeaders(x) => (Type::GetHeaders as u8, hex(&sv(x, ver))),
		Message::GetPeerAddrs(x) => (Type::GetPeerAddrs as u8, hex(&sv(x, ver))),
		Message::PeerAddrs(x) => (Type::PeerAddrs as u8, hex(&sv(x, ver))),
		Message::TxHashSetRequest(x) => (Type::TxHashSetRequest as u8, hex(&sv(x, ver))),
		Message::TxHashSetArchive(x) => (Type::TxHashSetArchive as u8, hex(&sv(x, ver))),
		Message::GetOutputBitmapSegment(x) => (Type::GetOutputBitmapSegment as u8, hex(&sv(x, ver))),
		Message::GetOutputSegment(x) => (Type::GetOutputSegment as u8, hex(&sv(x, ver))),
		Message::GetRangeProofSegment(x) => (Type::GetRangeProofSegment as u8, hex(&sv(x, ver))),
		Message::GetKernelSegment(x) => (Type::GetKernelSegment as u8, hex(&sv(x, ver))),
		Message::Transaction(x) => (Type::Transaction as u8, hex(&sv(x, ver))),
		Message::StemTransaction(x) => (Type::StemTransaction as u8, hex(&sv(x, ver))),
		_ => return None,
	})
}

struct RunResult {
	events: Vec<String>,
	got: Vec<Exp>,
	end: String,
	end_bytes: u64,
	end_maxreq: usize,
}

/// deliver `frags` over a fresh loopback connection (0–2 ms gaps when `gaps`), read with the real codec
fn run_codec(ver: u32, frags: &[Vec<u8>], gaps: &[u64]) -> RunResult {
	let listener = TcpListener::bind("127.0.0.1:0").unwrap();
	let addr = listener.local_addr().unwrap();
	let frags_w: Vec<Vec<u8>> = frags.to_vec();
	let gaps_w: Vec<u64> = gaps.to_vec();
	let writer = std::thread::spawn(move || {
		let mut s = TcpStream::connect(addr).unwrap();
		s.set_nodelay(true).unwrap();
		for (i, f) in frags_w.iter().enumerate() {
			if s.write_all(f).is_err() {
				break;
			}
			let _ = s.flush();
			let g = gaps_w.get(i).copied().unwrap_or(0);
			if g > 0 {
				std::thread::sleep(std::time::Duration::from_micros(g));
			}
		}
		let _ = s.shutdown(Shutdown::Write);
		// keep the socket open until the reader is done (it closes its end)
		let mut sink = [0u8; 16];
		let _ = s.read(&mut sink);
	});
	let (stream, _) = listener.accept().unwrap();
	let mut codec = Codec::new(ProtocolVersion(ver), stream.try_clone().unwrap());
	let mut res = RunResult { events: vec![], got: vec![], end: String::new(), end_bytes: 0, end_maxreq: 0 };
	loop {
		MAX_REQ.store(0, Ordering::Relaxed);
		let (next, bytes_read) = codec.read();
		let maxreq = MAX_REQ.load(Ordering::Relaxed);
		match next {
			Ok(Message::Unknown(t)) => {
				res.events.push(format!("unknown:{}:{}", t, bytes_read));
				res.got.push(Exp::Unknown(t));
			}
			Ok(Message::Headers(d)) => {
				let canon: Vec<u8> = d.headers.iter().flat_map(|h| sv(h, ver)).collect();
				res.events.push(format!("headers:{}:{}:{}:{}", d.headers.len(), d.remaining, hex(&canon), bytes_read));
				res.got.push(Exp::Headers(d.headers.len(), d.remaining, hex(&canon)));
			}
			Ok(Message::Attachment(up, bytes)) => {
				let b = bytes.map(|b| b.to_vec()).unwrap_or_default();
				res.events.push(format!("att:{}:{}:{}:{}", up.read, up.left, checksum(&b), bytes_read));
				res.got.push(Exp::Att(up.read, up.left, checksum(&b)));
			}
			Ok(m) => {
				if let Message::TxHashSetArchive(a) = &m {
					// what `Protocol::consume` answers when a state sync was requested
					codec.expect_attachment(Arc::new(AttachmentMeta {
						size: a.bytes as usize,
						hash: a.hash,
						height: a.height,
						start_time: Utc::now(),
						path: std::path::PathBuf::new(),
					}));
				}
				match canon_message(&m, ver) {
					Some((t, c)) => {
						res.events.push(format!("body:{}:{}:{}", t, c, bytes_read));
						res.got.push(Exp::Body(t, c));
					}
					None => res.events.push(format!("other:{}", bytes_read)),
				}
			}
			Err(e) => {
				res.end = err_name(&e);
				res.end_bytes = bytes_read;
				res.end_maxreq = maxreq;
				break;
			}
		}
	}
	let _ = codec.stream().shutdown(Shutdown::Both);
	drop(stream);
	let _ = writer.join();
	res
}

fn split_at_points(stream: &[u8], points: &[usize]) -> Vec<Vec<u8>> {
	let mut v = vec![];
	let mut last = 0;
	for &p in points {
		v.push(stream[last..p].to_vec());
		last = p;
	}
	v.push(stream[last..].to_vec());
	v
}

fn emit_run(cx: &mut Ctx, ver: u32, frags: &[Vec<u8>], r: &RunResult, with_maxreq: bool) {
	let mut evs = r.events.clone();
	if with_maxreq {
		evs.push(format!("end:{}:{}:{}", r.end, r.end_bytes, r.end_maxreq));
	} else {
		evs.push(format!("end:{}:{}", r.end, r.end_bytes));
	}
	cx.out.line(&format!("codec run {} {}", ver, hex_list(frags)), &format!("[{}]", evs.join(";")));
}

/// sequences of well-formed messages under every single split point / random multi-splits
fn faithful(cx: &mut Ctx, work: &std::path::Path) {
	let nseq = if cx.thorough { 75 } else { 18 };
	for si in 0..nseq {
		let ver = VERSIONS[si % 4];
		let nmsg = 1 + cx.rng.below(4) as usize;
		let mut stream: Vec<u8> = vec![];
		let mut exp: Vec<Exp> = vec![];
		let mut names = vec![];
		for mi in 0..nmsg {
			// make sure every kind appears: first message of sequence `si` is kind `si % 15`
			let kind = if mi == 0 { (si % 15) as u64 } else { cx.rng.below(15) };
			let (w, e, name) = gen_message(cx, ver, kind, work);
			stream.extend_from_slice(&w);
			exp.extend(e);
			names.push(name);
		}
		for n in &names {
			cx.stat(&format!("sent {}", n));
		}
		cx.stat(&format!("stream length bucket 2^{}", 64 - (stream.len() as u64).leading_zeros()));
		let mut plans: Vec<Vec<usize>> = vec![vec![]];
		if stream.len() <= if cx.thorough { 1500 } else { 260 } {
			// EVERY single split point
			for p in 1..stream.len() {
				plans.push(vec![p]);
			}
			cx.stat("streams cut at every single split point");
		} else {
			// all split points inside the first frame header, then a sample
			for p in 1..12.min(stream.len()) {
				plans.push(vec![p]);
			}
			for _ in 0..(if cx.thorough { 40 } else { 8 }) {
				plans.push(vec![1 + cx.rng.below(stream.len() as u64 - 1) as usize]);
			}
		}
		// random multi-splits (incl. byte-by-byte for short streams)
		for _ in 0..(if cx.thorough { 12 } else { 4 }) {
			let k = 2 + cx.rng.below(12) as usize;
			let mut ps: Vec<usize> = (0..k).map(|_| 1 + cx.rng.below(stream.len() as u64 - 1) as usize).collect();
			ps.sort_unstable();
			ps.dedup();
			plans.push(ps);
		}
		if stream.len() <= 120 {
			plans.push((1..stream.len()).collect());
			cx.stat("streams delivered byte by byte");
		}
		for (pi, ps) in plans.iter().enumerate() {
			let frags = split_at_points(&stream, ps);
			let gaps: Vec<u64> = (0..frags.len())
				.map(|_| if ps.len() <= 1 { 300 } else { cx.rng.below(2001) })
				.collect();
			let r = run_codec(ver, &frags, &gaps);
			cx.stat(&format!("fragments per stream: {}", if frags.len() > 8 { ">8".to_string() } else { frags.len().to_string() }));
			if r.got != exp || r.end != "Connection" {
				cx.fails += 1;
				cx.out.raw(&format!(
					"#ORACLE-FAIL C19 sequence read differs from sequence written: version {} messages {:?} fragments {} read {:?} end {} expected {:?}",
					ver, names, hex_list(&frags).chars().take(600).collect::<String>(), r.got.iter().map(|e| format!("{:?}", e).chars().take(60).collect::<String>()).collect::<Vec<_>>(), r.end,
					exp.iter().map(|e| format!("{:?}", e).chars().take(60).collect::<String>()).collect::<Vec<_>>()
				));
			}
			// the model line: all plans for short streams, a sample for long ones
			if stream.len() <= 3000 || pi < 3 {
				emit_run(cx, ver, &frags, &r, false);
			}
		}
	}
}

/// frame headers that must be refused: wrong magic, over-limit lengths per type, inconsistent counts
fn refusals(cx: &mut Ctx) {
	let mbs: u64 = global::max_block_weight() / 21 * 708;
	let limits: Vec<(u8, u64)> = vec![
		(0, 0), (1, 128), (2, 88), (3, 16), (4, 16), (5, 4), (6, 4 + 19 * 256), (7, 1 + 32 * 20), (8, 365), (9, 2 + 365 * 512),
		(10, 32), (11, mbs), (12, 32), (13, mbs / 10), (14, mbs), (15, mbs), (16, 40), (17, 64), (18, 64), (19, 32), (20, 32),
		(21, 41), (22, 2 * mbs), (23, 41), (24, 2 * mbs), (25, 41), (26, 2 * mbs), (27, 41), (28, 2 * mbs), (29, mbs), (200, mbs), (255, mbs),
	];
	for (t, lim) in limits {
		for len in [4 * lim + 1, 4 * lim + 2, u64::MAX, 1 << 63, 1 << 32] {
			if len <= 4 * lim {
				continue;
			}
			let mut w = vec![73u8, 43, t];
			w.extend_from_slice(&len.to_be_bytes());
			// the announced body does not follow: 40 bytes of junk do
			w.extend_from_slice(&cx.rng.bytes(40));
			let ver = VERSIONS[(t as usize) % 4];
			let r = run_codec(ver, &[w.clone()], &[0]);
			cx.stat("over-limit frame headers");
			if r.end != "Ser:TooLargeReadErr" || r.end_bytes != 11 || r.end_maxreq > 65536 || !r.events.is_empty() {
				cx.fails += 1;
				cx.out.raw(&format!(
					"#ORACLE-FAIL C19 over-limit frame (type {} len {}) not refused at the header: end {} bytes_read {} maxreq {} stream {}",
					t, len, r.end, r.end_bytes, r.end_maxreq, hex(&w)
				));
			}
			emit_run(cx, ver, &[w], &r, true);
		}
		// at the limit and just below: accepted at the header (then the body is short / junk)
		if lim > 0 && lim * 4 <= 4096 {
			let len = 4 * lim;
			let mut w = vec![73u8, 43, t];
			w.extend_from_slice(&len.to_be_bytes());
			w.extend_from_slice(&cx.rng.bytes(len as usize));
			let r = run_codec(1, &[w.clone()], &[0]);
			cx.stat("at-limit frame headers");
			emit_run(cx, 1, &[w], &r, false);
		}
	}
	// wrong magic (mainnet / testnet magic on this AutomatedTesting node, single-byte flips)
	for (a, b) in [(97u8, 61u8), (83, 59), (73, 44), (72, 43), (0, 0), (43, 73)] {
		let mut w = vec![a, b, 3];
		w.extend_from_slice(&16u64.to_be_bytes());
		w.extend_from_slice(&cx.rng.bytes(16));
		let r = run_codec(1, &[w.clone()], &[0]);
		cx.stat("wrong-magic frame headers");
		if r.end != "Ser:UnexpectedData" || r.end_bytes != 11 || !r.events.is_empty() || r.end_maxreq > 65536 {
			cx.fails += 1;
			cx.out.raw(&format!("#ORACLE-FAIL C19 wrong magic not refused at the header: end {} bytes_read {} stream {}", r.end, r.end_bytes, hex(&w)));
		}
		emit_run(cx, 1, &[w], &r, true);
	}
	// Hand / Shake / Error / Headers-through-decode: UnexpectedMessage
	for t in [0u8, 1, 2] {
		let mut w = vec![73u8, 43, t];
		w.extend_from_slice(&0u64.to_be_bytes());
		let r = run_codec(1, &[w.clone()], &[0]);
		cx.stat("handshake-only types sent to the codec");
		emit_run(cx, 1, &[w], &r, false);
	}
}

/// `Headers` frames whose item count is inconsistent with the frame length
fn headers_inconsistent(cx: &mut Ctx) {
	let ver = 1;
	let hs: Vec<BlockHeader> = header_pool(cx, 5);
	let items: Vec<Vec<u8>> = hs.iter().map(|h| sv(h, ver)).collect();
	// (announced count, number of items actually present, trailing junk bytes)
	let cases: Vec<(u16, usize, usize)> = vec![
		(0, 0, 0), // the empty list: refused (recorded finding)
		(0, 1, 0),
		(0, 3, 0),
		(1, 0, 0),
		(2, 1, 0),
		(5, 3, 0),
		(1, 2, 0),
		(3, 5, 0),
		(2, 2, 7),
		(1, 1, 1),
		(65535, 2, 0),
	];
	for (count, present, junk) in cases {
		let mut body = count.to_be_bytes().to_vec();
		for it in items.iter().take(present) {
			body.extend_from_slice(it);
		}
		body.extend_from_slice(&cx.rng.bytes(junk));
		let mut w = sv(&MsgHeader::new(Type::Headers, body.len() as u64), ver);
		let frame_len = w.len() + body.len();
		w.extend_from_slice(&body);
		// a well-formed Ping follows: it must not be consumed as part of the refused frame
		w.extend_from_slice(&wire(&Msg::new(Type::Ping, Ping { total_difficulty: Difficulty::from_num(1), height: 2 }, ProtocolVersion(ver)).unwrap()));
		let r = run_codec(ver, &[w.clone()], &[0]);
		cx.stat("Headers frames with inconsistent count");
		let total: u64 = r.events.iter().map(|e| e.rsplit(':').next().unwrap().parse::<u64>().unwrap_or(0)).sum::<u64>() + r.end_bytes;
		let consistent = count as usize == present && junk == 0 && count > 0;
		if !consistent && (r.end != "BadMessage" && !r.end.starts_with("Ser:")) {
			cx.fails += 1;
			cx.out.raw(&format!("#ORACLE-FAIL C19 inconsistent Headers frame (count {} present {} junk {}) not refused: end {} stream {}", count, present, junk, r.end, hex(&w)));
		}
		if !consistent && total > frame_len as u64 {
			cx.fails += 1;
			cx.out.raw(&format!("#ORACLE-FAIL C19 inconsistent Headers frame read beyond msg_len: {} > {} stream {}", total, frame_len, hex(&w)));
		}
		if count == 0 && present == 0 {
			if r.end == "BadMessage" && r.events.is_empty() {
				cx.out.raw(&format!(
					"#KNOWN-PROBE C19 empty-headers-refused a well-formed empty Headers message (count 0, msg_len 2: what a peer answers to GetHeaders when it has nothing newer) is refused by the codec with BadMessage (connection dropped); stream {}",
					hex(&w)
				));
			} else {
				cx.out.raw(&format!("#STAT probe empty-headers-refused: NOT reproduced (end {})", r.end));
			}
		}
		if count == 0 && present > 0 {
			// repaired in /repo 8eb131841: refused before any item is decoded or delivered
			if !r.events.is_empty() || r.end != "BadMessage" {
				cx.fails += 1;
				cx.out.raw(&format!("#ORACLE-FAIL C19 regression of repaired defect headers-count-zero-wrap: count 0 with {} items gave events {:?} end {}", present, r.events.iter().map(|e| e.chars().take(40).collect::<String>()).collect::<Vec<_>>(), r.end));
			}
		}
		// no delivered batch may carry a wrapped `remaining`
		for e in r.events.iter().filter(|e| e.starts_with("headers:")) {
			let rem: u64 = e.split(':').nth(2).and_then(|x| x.parse().ok()).unwrap_or(u64::MAX);
			if rem > 65535 {
				cx.fails += 1;
				cx.out.raw(&format!("#ORACLE-FAIL C19 a header batch with remaining = {} was delivered (count {} present {}): stream {}", rem, count, present, hex(&w).chars().take(400).collect::<String>()));
			}
		}
		emit_run(cx, ver, &[w], &r, false);
	}
	// count = 0 with 33 items: before 8eb131841 a full batch of 32 was delivered (remaining = 2^64-32)
	let many: Vec<Vec<u8>> = header_pool(cx, 33).iter().map(|h| sv(h, ver)).collect();
	let mut body = 0u16.to_be_bytes().to_vec();
	for it in &many {
		body.extend_from_slice(it);
	}
	let mut w = sv(&MsgHeader::new(Type::Headers, body.len() as u64), ver);
	w.extend_from_slice(&body);
	let r = run_codec(ver, &[w.clone()], &[0]);
	let batches: Vec<String> = r.events.iter().filter(|e| e.starts_with("headers:")).map(|e| e.split(':').take(3).collect::<Vec<_>>().join(":")).collect();
	if !batches.is_empty() || r.end != "BadMessage" {
		cx.fails += 1;
		cx.out.raw(&format!(
			"#ORACLE-FAIL C19 regression of repaired defect headers-count-zero-wrap: a Headers frame announcing 0 items but carrying 33 delivered {:?} and ended with {}",
			batches, r.end
		));
	} else {
		cx.out.raw("#STAT regression probe headers-count-zero-wrap: repaired behaviour confirmed (count 0 with 33 items: no batch delivered, BadMessage)");
	}
	emit_run(cx, ver, &[w], &r, false);
}

// ---------------------------------------------------------------------------------------------
// handshake

fn hs_pair() -> (TcpStream, TcpStream) {
	let l = TcpListener::bind("127.0.0.1:0").unwrap();
	let a = TcpStream::connect(l.local_addr().unwrap()).unwrap();
	let (b, _) = l.accept().unwrap();
	(a, b)
}

fn handshakes(cx: &mut Ctx) {
	let g1 = Hash::from_vec(&[7u8; 32]);
	let g2 = Hash::from_vec(&[9u8; 32]);
	let caps = Capabilities::default();
	let self_addr = PeerAddr("127.0.0.1:3414".parse().unwrap());
	// 1. two real Handshakes (both speak the local version)
	for (ga, gb) in [(g1, g1), (g1, g2)] {
		let (mut a, mut b) = hs_pair();
		let t = std::thread::spawn(move || {
			global::set_local_chain_type(ChainTypes::AutomatedTesting);
			let hb = Handshake::new(gb, P2PConfig::default());
			hb.accept(caps, Difficulty::from_num(5), &mut b).map(|i| i.version.value())
		});
		let ha = Handshake::new(ga, P2PConfig::default());
		let ra = ha.initiate(caps, Difficulty::from_num(3), self_addr, &mut a).map(|i| i.version.value());
		let rb = t.join().unwrap();
		let same = ga == gb;
		cx.stat("real Handshake pairs");
		let ok = if same { matches!(ra, Ok(1000)) && matches!(rb, Ok(1000)) } else { matches!(rb, Err(grin_p2p::Error::GenesisMismatch { .. })) && ra.is_err() };
		if !ok {
			cx.fails += 1;
			cx.out.raw(&format!("#ORACLE-FAIL C19 handshake between two real Handshakes (same genesis: {}): initiate {:?} accept {:?}", same, ra.map_err(|e| err_name(&e)), rb.map_err(|e| err_name(&e))));
		}
	}
	// 2. self connection: the same Handshake on both ends
	{
		let (mut a, mut b) = hs_pair();
		let hs = Arc::new(Handshake::new(g1, P2PConfig::default()));
		let hs2 = hs.clone();
		let t = std::thread::spawn(move || {
			global::set_local_chain_type(ChainTypes::AutomatedTesting);
			hs2.accept(caps, Difficulty::from_num(5), &mut b).map(|i| i.version.value())
		});
		let ra = hs.initiate(caps, Difficulty::from_num(3), self_addr, &mut a).map(|i| i.version.value());
		let rb = t.join().unwrap();
		cx.stat("self connections");
		let rbs = match &rb {
			Ok(v) => format!("ok {}", v),
			Err(e) => format!("err {}", err_name(e)),
		};
		if !matches!(rb, Err(grin_p2p::Error::PeerWithSelf)) || ra.is_ok() {
			cx.fails += 1;
			cx.out.raw(&format!("#ORACLE-FAIL C19 self connection not refused: accept {} initiate ok={}", rbs, ra.is_ok()));
		}
		cx.out.line("codec hs self", &rbs);
	}
	// 3. a scripted peer with every version against the real accept / initiate
	let versions: Vec<u32> = vec![0, 1, 2, 3, 999, 1000, 1001, u32::MAX];
	for &pv in &versions {
		for (our_g, their_g) in [(g1, g1), (g1, g2)] {
			for wire_ver in [1u32, 1000] {
				// real accept <- scripted Hand
				let hand = Hand {
					version: ProtocolVersion(pv),
					capabilities: Capabilities::from_bits_truncate(cx.rng.next() as u32),
					nonce: cx.rng.next(),
					genesis: their_g,
					total_difficulty: Difficulty::from_num(cx.rng.below(1 << 40)),
					sender_addr: gen_addr(&mut cx.rng),
					receiver_addr: gen_addr(&mut cx.rng),
					user_agent: "verif/1".to_string(),
				};
				let bytes = wire(&Msg::new(Type::Hand, hand, ProtocolVersion(wire_ver)).unwrap());
				let r = scripted_accept(our_g, &bytes);
				let expect_ok = our_g == their_g;
				let want = pv.min(1000);
				cx.stat("scripted Hand -> real accept");
				match (&r, expect_ok) {
					(Ok(v), true) if *v == want => {}
					(Err(e), false) if e == "GenesisMismatch" => {}
					_ => {
						cx.fails += 1;
						cx.out.raw(&format!("#ORACLE-FAIL C19 accept: peer version {} genesis-equal {} gave {:?}, expected {}", pv, expect_ok, r, if expect_ok { format!("ok {}", want) } else { "GenesisMismatch".into() }));
					}
				}
				let rs = match &r {
					Ok(v) => format!("ok {}", v),
					Err(e) => format!("err {}", e),
				};
				cx.out.line(&format!("codec hs accept {} {}", hex(our_g.as_bytes()), hex(&bytes)), &rs);
				// real initiate <- scripted Shake
				let shake = Shake {
					version: ProtocolVersion(pv),
					capabilities: Capabilities::from_bits_truncate(cx.rng.next() as u32),
					genesis: their_g,
					total_difficulty: Difficulty::from_num(cx.rng.below(1 << 40)),
					user_agent: "verif/1".to_string(),
				};
				let bytes = wire(&Msg::new(Type::Shake, shake, ProtocolVersion(wire_ver)).unwrap());
				let r = scripted_initiate(our_g, &bytes);
				cx.stat("scripted Shake -> real initiate");
				match (&r, expect_ok) {
					(Ok(v), true) if *v == want => {}
					(Err(e), false) if e == "GenesisMismatch" => {}
					_ => {
						cx.fails += 1;
						cx.out.raw(&format!("#ORACLE-FAIL C19 initiate: peer version {} genesis-equal {} gave {:?}", pv, expect_ok, r));
					}
				}
				let rs = match &r {
					Ok(v) => format!("ok {}", v),
					Err(e) => format!("err {}", e),
				};
				cx.out.line(&format!("codec hs initiate {} {}", hex(our_g.as_bytes()), hex(&bytes)), &rs);
			}
		}
	}
	// 4. malformed first frames against the real accept: wrong magic, wrong type, over-limit, unknown type, short body
	let good = wire(&Msg::new(
		Type::Hand,
		Hand {
			version: ProtocolVersion(2),
			capabilities: caps,
			nonce: 77,
			genesis: g1,
			total_difficulty: Difficulty::from_num(1),
			sender_addr: self_addr,
			receiver_addr: self_addr,
			user_agent: "x".to_string(),
		},
		ProtocolVersion(1),
	).unwrap());
	let mut variants: Vec<Vec<u8>> = vec![];
	let mut v = good.clone(); v[0] = 97; v[1] = 61; variants.push(v);
	let mut v = good.clone(); v[2] = 2; variants.push(v);
	let mut v = good.clone(); v[2] = 3; variants.push(v);
	let mut v = good.clone(); v[2] = 99; variants.push(v);
	let mut v = good.clone(); v[3..11].copy_from_slice(&513u64.to_be_bytes()); variants.push(v);
	let mut v = good.clone(); v[3..11].copy_from_slice(&512u64.to_be_bytes()); variants.push(v);
	let mut v = good.clone(); v[3..11].copy_from_slice(&u64::MAX.to_be_bytes()); variants.push(v);
	let mut v = good.clone(); v[3..11].copy_from_slice(&5u64.to_be_bytes()); variants.push(v);
	variants.push(good[..7].to_vec());
	variants.push(good[..good.len() - 3].to_vec());
	let mut v = good.clone(); let n = v.len(); v[n - 40] ^= 0xff; variants.push(v); // user agent / genesis area
	for bytes in variants {
		let r = scripted_accept(g1, &bytes);
		cx.stat("malformed first frames -> real accept");
		let rs = match &r {
			Ok(v) => format!("ok {}", v),
			Err(e) => format!("err {}", e),
		};
		cx.out.line(&format!("codec hs accept {} {}", hex(g1.as_bytes()), hex(&bytes)), &rs);
	}
}

/// the real `Handshake::accept` reading `bytes` (then end of stream) from a scripted peer
fn scripted_accept(our_genesis: Hash, bytes: &[u8]) -> Result<u32, String> {
	let (mut a, mut b) = hs_pair();
	let bytes = bytes.to_vec();
	let t = std::thread::spawn(move || {
		let _ = a.write_all(&bytes);
		let _ = a.shutdown(Shutdown::Write);
		let mut sink = vec![];
		let _ = a.read_to_end(&mut sink);
	});
	let hs = Handshake::new(our_genesis, P2PConfig::default());
	let r = hs.accept(Capabilities::default(), Difficulty::from_num(1), &mut b).map(|i| i.version.value()).map_err(|e| err_name(&e));
	let _ = b.shutdown(Shutdown::Both);
	let _ = t.join();
	r
}

/// the real `Handshake::initiate` against a scripted peer that swallows the Hand and answers `bytes`
fn scripted_initiate(our_genesis: Hash, bytes: &[u8]) -> Result<u32, String> {
	let (mut a, mut b) = hs_pair();
	let bytes = bytes.to_vec();
	let t = std::thread::spawn(move || {
		// read the Hand frame: header, then body
		let mut head = [0u8; 11];
		if b.read_exact(&mut head).is_ok() {
			let mut l = [0u8; 8];
			l.copy_from_slice(&head[3..11]);
			let mut body = vec![0u8; u64::from_be_bytes(l) as usize];
			let _ = b.read_exact(&mut body);
		}
		let _ = b.write_all(&bytes);
		let _ = b.shutdown(Shutdown::Write);
		let mut sink = vec![];
		let _ = b.read_to_end(&mut sink);
	});
	let hs = Handshake::new(our_genesis, P2PConfig::default());
	let r = hs
		.initiate(Capabilities::default(), Difficulty::from_num(1), PeerAddr("127.0.0.1:3414".parse().unwrap()), &mut a)
		.map(|i| i.version.value())
		.map_err(|e| err_name(&e));
	let _ = a.shutdown(Shutdown::Both);
	let _ = t.join();
	r
}

fn main() {
	quiet_panics();
	global::set_local_chain_type(ChainTypes::AutomatedTesting);
	let work = std::path::PathBuf::from(std::env::var("VERIF_WORK").expect("VERIF_WORK"));
	std::fs::create_dir_all(&work).unwrap();
	let mut cx = Ctx { out: Out::stdout(), rng: Rng::new(seed_from_env()), thorough: tier_thorough(), stats: BTreeMap::new(), fails: 0, pool: vec![] };
	let mode = std::env::args().nth(1).unwrap_or_else(|| "all".to_string());
	if mode == "all" || mode == "faithful" {
		faithful(&mut cx, &work);
	}
	if mode == "all" || mode == "refuse" {
		refusals(&mut cx);
		headers_inconsistent(&mut cx);
	}
	if mode == "all" || mode == "handshake" {
		handshakes(&mut cx);
	}
	let stats = std::mem::take(&mut cx.stats);
	for (k, v) in stats {
		cx.out.raw(&format!("#STAT {}: {}", k, v));
	}
	cx.out.raw(&format!("#STAT oracle failures: {}", cx.fails));
	cx.out.flush();
	let _ = Hashed::hash(&0u8);
}
