//! The API's printable forms (api/src/types.rs) and id parsers (properties C10 / C11, "or the API"):
//!   * OutputPrintable (hand-written Deserialize + range_proof() / commit() helpers), api::Output
//!     (PrintableCommitment), TxKernelPrintable, BlockHeaderPrintable, BlockPrintable,
//!     CompactBlockPrintable, Tip, Version, OutputListing, BlockListing, LocatedTxKernel: every value is
//!     written, read back and written again (identical text), then every one-leaf mutant of the JSON
//!     is read under `catch` - a panic is `#ORACLE-FAIL C11`;
//!   * `ser jopfin` lines: which keys an OutputPrintable object has -> ok / err (model: outputPrintableFinish);
//!   * `ser jrp` lines: OutputPrintable::range_proof() on a proof string (model: rangeProofHelper);
//!   * `ser jhex hashid|excessid|commit` lines: the handlers' id parsers (util::from_hex, then
//!     Hash::from_vec / Commitment::from_vec / the 33-byte test of get_kernel).
//!
//!   serapi          registered run: every key subset of an OutputPrintable object, range_proof() on proof
//!                   strings of every length class. The two recorded and repaired defects are replayed as
//!                   regression probes: an object without `block_height` (f960854e0,
//!                   C11-outputprintable-missing-block-height-panics) and range_proof() on fewer than 675
//!                   bytes (5eec0a242, C11-outputprintable-short-proof-panics); a panic there is
//!                   `#ORACLE-FAIL C11 outputprintable-…` again
//!   serapi probe    the same inputs as #STAT lines

use grin_api::{
	BlockHeaderPrintable, BlockListing, BlockPrintable, CompactBlockPrintable, LocatedTxKernel, Output as ApiOutput,
	OutputListing, OutputPrintable, OutputType, Tip, TxKernelPrintable, Version,
};
use grin_core::core::hash::Hash;
use grin_core::core::merkle_proof::MerkleProof;
use grin_core::core::{BlockHeader, FeeFields, KernelFeatures, TxKernel};
use grin_util::secp::pedersen::Commitment;
use grin_util::secp::Signature;
use gvharness::*;
use serde::de::DeserializeOwned;
use serde::Serialize;
use serde_json::Value;
use std::collections::BTreeMap;
use std::panic::AssertUnwindSafe;

struct Cx {
	out: Out,
	rng: Rng,
	stats: BTreeMap<String, u64>,
	fails: u64,
}

impl Cx {
	fn stat(&mut self, k: &str) {
		*self.stats.entry(k.to_string()).or_insert(0) += 1;
	}
	fn fail(&mut self, prop: &str, text: String) {
		self.fails += 1;
		if self.fails <= 40 {
			self.out.raw(&format!("#ORACLE-FAIL {} {}", prop, text));
		}
	}
}

const ODD_STRINGS: [&str; 18] = [
	"", "0", "0x", " 00 ", "zz", "0g", "+f", "-1", "€a", "a€", "é", "00€", "0X00", "00 00", "Coinbase", "Transaction", "coinbase", "\u{0}",
];

fn commit(rng: &mut Rng) -> Commitment {
	let mut c = [0u8; 33];
	c.copy_from_slice(&rng.bytes(33));
	c[0] = 8 + (c[0] & 1);
	Commitment(c)
}

fn hx(b: &[u8]) -> String {
	let h = hex(b);
	if h == "-" {
		String::new()
	} else {
		h
	}
}

fn gen_output(rng: &mut Rng, i: usize) -> OutputPrintable {
	OutputPrintable {
		output_type: if i % 2 == 0 { OutputType::Coinbase } else { OutputType::Transaction },
		commit: commit(rng),
		spent: i % 3 == 0,
		proof: if i % 4 == 3 { None } else { Some(hx(&rng.bytes(675))) },
		proof_hash: hx(&rng.bytes(32)),
		block_height: if i % 5 == 4 { None } else { Some(rng.next() >> rng.below(64)) },
		merkle_proof: match i % 3 {
			0 => None,
			1 => Some(MerkleProof::empty()),
			_ => Some(MerkleProof { mmr_size: rng.below(1 << 30), path: (0..3).map(|_| Hash::from_vec(&rng.bytes(32))).collect() }),
		},
		mmr_index: rng.next() >> rng.below(64),
	}
}

fn gen_kernel(rng: &mut Rng, k: u64) -> TxKernelPrintable {
	let fee = FeeFields::new(rng.below(4), 1 + rng.below(1 << 39)).unwrap_or_else(|_| FeeFields::zero());
	let features = match k % 3 {
		0 => KernelFeatures::Plain { fee },
		1 => KernelFeatures::Coinbase,
		_ => KernelFeatures::HeightLocked { fee, lock_height: rng.next() >> rng.below(64) },
	};
	let mut raw = [0u8; 64];
	raw.copy_from_slice(&rng.bytes(64));
	let sig = Signature::from_raw_data(&raw).unwrap_or_else(|_| Signature::from_raw_data(&[0u8; 64]).expect("zero signature"));
	TxKernelPrintable::from_txkernel(&TxKernel { features, excess: commit(rng), excess_sig: sig })
}

fn gen_header(rng: &mut Rng) -> BlockHeaderPrintable {
	let mut h = BlockHeader::default();
	h.height = rng.next() >> rng.below(64);
	h.pow.nonce = rng.next();
	h.output_mmr_size = rng.next() >> rng.below(64);
	h.prev_root = Hash::from_vec(&rng.bytes(32));
	BlockHeaderPrintable::from_header(&h)
}

/// all mutants of `v` with ONE leaf / field changed; `skip_remove` = keys that are never removed or renamed
fn mutants(v: &Value, out: &mut Vec<Value>, rebuild: &dyn Fn(Value) -> Value, skip_remove: &[&str]) {
	match v {
		Value::String(s) => {
			let mut alts: Vec<Value> = ODD_STRINGS.iter().map(|x| Value::String(x.to_string())).collect();
			if s.len() >= 2 {
				alts.push(Value::String(s[..s.len() - 1].to_string()));
				alts.push(Value::String(format!("{}€", &s[..s.len() - 2])));
				alts.push(Value::String(format!("{}{}", s, s)));
				alts.push(Value::String("ab".repeat(5000)));
			}
			alts.push(Value::Null);
			alts.push(serde_json::json!(12));
			alts.push(serde_json::json!([1, 2]));
			alts.push(serde_json::json!({"a": 1}));
			for a in alts {
				out.push(rebuild(a));
			}
		}
		Value::Number(_) | Value::Bool(_) | Value::Null => {
			for a in [
				serde_json::json!(-1),
				serde_json::json!(0),
				serde_json::json!(18446744073709551615u64),
				serde_json::json!(65536),
				serde_json::json!(256),
				serde_json::json!(1.5),
				serde_json::json!(1e300),
				serde_json::json!("12"),
				serde_json::json!("€"),
				Value::Null,
				serde_json::json!(true),
				serde_json::json!([]),
				serde_json::json!({}),
			] {
				out.push(rebuild(a));
			}
		}
		Value::Array(items) => {
			for (i, it) in items.iter().enumerate() {
				let items2 = items.clone();
				mutants(it, out, &|nv| {
					let mut c = items2.clone();
					c[i] = nv;
					rebuild(Value::Array(c))
				}, skip_remove);
			}
			out.push(rebuild(Value::Array(vec![])));
			out.push(rebuild(Value::Null));
			out.push(rebuild(serde_json::json!("x")));
			if let Some(f) = items.first() {
				out.push(rebuild(Value::Array(vec![f.clone(), Value::Null])));
			}
		}
		Value::Object(m) => {
			for (k, it) in m.iter() {
				let m2 = m.clone();
				let key = k.clone();
				mutants(it, out, &|nv| {
					let mut c = m2.clone();
					c.insert(key.clone(), nv);
					rebuild(Value::Object(c))
				}, skip_remove);
				if !skip_remove.contains(&k.as_str()) {
					let mut c = m.clone();
					c.remove(k);
					out.push(rebuild(Value::Object(c)));
				}
				let mut c = m.clone();
				c.insert(format!("{}_", k), it.clone());
				out.push(rebuild(Value::Object(c)));
			}
			out.push(rebuild(serde_json::json!("Coinbase")));
		}
	}
}

/// write / read / write again, then every mutant under `catch`. `after` is run on every ACCEPTED value
/// (the helper decoders that follow the JSON reader).
fn drive<T: Serialize + DeserializeOwned>(cx: &mut Cx, name: &str, x: &T, skip_remove: &[&str], after: &dyn Fn(&T)) {
	let j = match serde_json::to_string(x) {
		Ok(j) => j,
		Err(e) => {
			cx.fail("C10", format!("{} cannot be written as JSON: {}", name, e));
			return;
		}
	};
	match catch(AssertUnwindSafe(|| serde_json::from_str::<T>(&j))) {
		Ok(Ok(y)) => {
			let j2 = serde_json::to_string(&y).unwrap_or_default();
			if j2 != j {
				cx.fail("C10", format!("{} JSON round trip re-serialises differently: {} -> {}", name, j, j2));
			} else {
				cx.stat(&format!("{} roundtrip ok", name));
			}
			if let Err(m) = catch(AssertUnwindSafe(|| after(&y))) {
				cx.fail("C11", format!("{}: a helper decoder panicked ({}) on the value read from {}", name, m.replace('\n', " "), j));
			}
		}
		Ok(Err(e)) => cx.fail("C10", format!("{} does not read back from its own JSON ({}): {}", name, e, j)),
		Err(m) => cx.fail("C11", format!("{} JSON reader panicked ({}) on its own output {}", name, m.replace('\n', " "), j)),
	}
	let v: Value = match serde_json::from_str(&j) {
		Ok(v) => v,
		Err(_) => return,
	};
	let mut ms = vec![];
	mutants(&v, &mut ms, &|x| x, skip_remove);
	for m in ms {
		let text = m.to_string();
		match catch(AssertUnwindSafe(|| serde_json::from_str::<T>(&text).map(|y| after(&y)))) {
			Ok(Ok(_)) => cx.stat(&format!("{} mutant accepted", name)),
			Ok(Err(_)) => cx.stat(&format!("{} mutant refused", name)),
			Err(msg) => cx.fail("C11", format!("{}{} JSON reader (or a helper decoder on the accepted value) panicked ({}) on {}", if msg.contains("unwrap") { "outputprintable-missing-block-height? " } else if msg.contains("range end index") { "outputprintable-short-proof? " } else { "" }, name, msg.replace('\n', " "), if text.len() > 2500 { format!("{}… ({} bytes)", &text[..2500], text.len()) } else { text.clone() })),
		}
	}
	// duplicate keys
	if let Value::Object(m) = &v {
		for (k, it) in m.iter() {
			let text = j.replacen("{", &format!("{{{}:{},", serde_json::to_string(k).unwrap_or_default(), it), 1);
			match catch(AssertUnwindSafe(|| serde_json::from_str::<T>(&text).is_ok())) {
				Ok(_) => cx.stat(&format!("{} duplicate key", name)),
				Err(msg) => cx.fail("C11", format!("{} JSON reader panicked ({}) on a duplicate key `{}`", name, msg.replace('\n', " "), k)),
			}
		}
	}
}

/// the helper decoders that follow the JSON reader, on every accepted value
fn safe_range_proof(o: &OutputPrintable) {
	let _ = o.range_proof();
	let _ = o.commit();
}

const OP_KEYS: [&str; 8] = ["output_type", "commit", "spent", "proof", "proof_hash", "block_height", "merkle_proof", "mmr_index"];

fn finish_lines(cx: &mut Cx, with_panicking: bool) {
	let o = gen_output(&mut cx.rng, 1);
	let v: Value = serde_json::to_value(&o).unwrap_or(Value::Null);
	let full = match v {
		Value::Object(m) => m,
		_ => return,
	};
	for mask in 0u32..256 {
		let has = |i: usize| mask & (1 << i) != 0;
		// the input class on which the unrepaired reader panicked: the five tested keys present, block_height absent
		let panics = has(0) && has(1) && has(2) && has(4) && has(7) && !has(5);
		if with_panicking && !panics {
			continue;
		}
		let mut m = serde_json::Map::new();
		for (i, k) in OP_KEYS.iter().enumerate() {
			if has(i) {
				if let Some(val) = full.get(*k) {
					m.insert(k.to_string(), val.clone());
				}
			}
		}
		let text = Value::Object(m).to_string();
		let flags: Vec<&str> = (0..8).map(|i| if has(i) { "1" } else { "0" }).collect();
		let r = catch(AssertUnwindSafe(|| serde_json::from_str::<OutputPrintable>(&text).is_ok()));
		let res = match &r {
			Ok(true) => "ok",
			Ok(false) => "err",
			Err(_) => "panic",
		};
		if with_panicking {
			cx.out.raw(&format!("#STAT probe OutputPrintable with keys {} -> {} {}", flags.join(""), res, r.err().map(|m| m.replace('\n', " ")).unwrap_or_default()));
		} else {
			cx.out.line(&format!("ser jopfin {}", flags.join(" ")), res);
			if res == "panic" {
				cx.fail("C11", format!("{}OutputPrintable JSON reader panicked on {}", if panics { "outputprintable-missing-block-height: " } else { "" }, text));
			}
			if panics {
				cx.stat("regression probe: object without block_height");
			}
		}
	}
}

fn rp_line(cx: &mut Cx, proof: Option<&str>, probe: bool) {
	let mut o = gen_output(&mut cx.rng, 1);
	o.proof = proof.map(|s| s.to_string());
	let r = catch(AssertUnwindSafe(|| o.range_proof().map(|p| p.proof[..p.plen].to_vec()).map_err(|_| ())));
	let res = match &r {
		Ok(Ok(b)) => format!("ok {}", hex(b)),
		Ok(Err(())) => "err".to_string(),
		Err(_) => "panic".to_string(),
	};
	if probe {
		cx.out.raw(&format!("#STAT probe OutputPrintable::range_proof() on a proof string of {} characters -> {} {}", proof.map(|s| s.len()).unwrap_or(0), if res.len() > 20 { "ok" } else { &res }, r.err().map(|m| m.replace('\n', " ")).unwrap_or_default()));
		return;
	}
	cx.out.line(&format!("ser jrp {}", proof.map(|s| hex(s.as_bytes())).unwrap_or_else(|| "none".to_string())), &res);
	if res == "panic" {
		cx.fail("C11", format!("outputprintable-short-proof: OutputPrintable::range_proof() panicked on the proof string with UTF-8 bytes {}", proof.map(|s| if s.len() > 120 { format!("{}… ({} bytes)", hex(&s.as_bytes()[..120]), s.len()) } else { hex(s.as_bytes()) }).unwrap_or_default()));
	}
	cx.stat("range_proof helper");
}

fn id_line(cx: &mut Cx, kind: &str, s: &str) {
	let r: Result<Result<Vec<u8>, ()>, String> = catch(AssertUnwindSafe(|| {
		let v = grin_util::from_hex(s).map_err(|_| ())?;
		match kind {
			"hashid" => Ok(Hash::from_vec(&v).to_vec()),
			"excessid" => {
				if v.len() != 33 {
					Err(())
				} else {
					Ok(Commitment::from_vec(v).0.to_vec())
				}
			}
			_ => Ok(Commitment::from_vec(v).0.to_vec()),
		}
	}));
	let lhs = format!("ser jhex {} {}", kind, hex(s.as_bytes()));
	match r {
		Ok(Ok(b)) => cx.out.line(&lhs, &format!("ok {}", hex(&b))),
		Ok(Err(())) => cx.out.line(&lhs, "err"),
		Err(m) => {
			cx.out.line(&lhs, "panic");
			cx.fail("C11", format!("id parser `{}` panicked ({}) on {}", kind, m.replace('\n', " "), hex(s.as_bytes())));
		}
	}
	cx.stat("id parser");
}

fn registered(cx: &mut Cx) {
	finish_lines(cx, false);
	// range_proof(): none, every odd string (hex of a few bytes among them), 0 .. 5000 bytes
	rp_line(cx, None, false);
	for s in ODD_STRINGS.iter() {
		rp_line(cx, Some(s), false);
	}
	for l in [1usize, 2, 33, 100, 337, 673, 674, 675, 676, 700, 1350, 5000] {
		let h = hx(&cx.rng.bytes(l));
		rp_line(cx, Some(&h), false);
		rp_line(cx, Some(&format!("0x{}", h)), false);
		rp_line(cx, Some(&format!("{}g", &h[..h.len() - 1])), false);
	}
	for kind in ["hashid", "excessid", "commit"].iter() {
		for s in ODD_STRINGS.iter() {
			id_line(cx, kind, s);
		}
		for l in [0usize, 1, 31, 32, 33, 34, 64, 100] {
			let h = hx(&cx.rng.bytes(l));
			id_line(cx, kind, &h);
			id_line(cx, kind, &h.to_uppercase());
			id_line(cx, kind, &format!(" 0x{}\n", h));
		}
	}
	let n = if tier_thorough() { 12 } else { 4 };
	for i in 0..n {
		let o = gen_output(&mut cx.rng, i);
		drive(cx, "OutputPrintable", &o, &[], &safe_range_proof);
		let ao = ApiOutput::new(&commit(&mut cx.rng), cx.rng.next() >> cx.rng.below(64), cx.rng.next() >> cx.rng.below(64));
		drive(cx, "Output", &ao, &[], &|y: &ApiOutput| {
			let _ = y.commit.commit();
			let _ = y.commit.to_vec();
		});
		let k = gen_kernel(&mut cx.rng, i as u64);
		drive(cx, "TxKernelPrintable", &k, &[], &|_| ());
		let h = gen_header(&mut cx.rng);
		drive(cx, "BlockHeaderPrintable", &h, &[], &|_| ());
		if i < 2 {
			let b = BlockPrintable {
				header: gen_header(&mut cx.rng),
				inputs: vec![hx(&commit(&mut cx.rng).0), hx(&commit(&mut cx.rng).0)],
				outputs: vec![gen_output(&mut cx.rng, 0), gen_output(&mut cx.rng, 1)],
				kernels: vec![gen_kernel(&mut cx.rng, 0), gen_kernel(&mut cx.rng, 2)],
			};
			drive(cx, "BlockPrintable", &b, &[], &|y: &BlockPrintable| y.outputs.iter().for_each(safe_range_proof));
			let cb = CompactBlockPrintable {
				header: gen_header(&mut cx.rng),
				out_full: vec![gen_output(&mut cx.rng, 2)],
				kern_full: vec![gen_kernel(&mut cx.rng, 1)],
				kern_ids: vec![hx(&cx.rng.bytes(6)), hx(&cx.rng.bytes(6))],
			};
			drive(cx, "CompactBlockPrintable", &cb, &[], &|y: &CompactBlockPrintable| y.out_full.iter().for_each(safe_range_proof));
			let ol = OutputListing { highest_index: cx.rng.next(), last_retrieved_index: cx.rng.next(), outputs: vec![gen_output(&mut cx.rng, 3)] };
			drive(cx, "OutputListing", &ol, &[], &|y: &OutputListing| y.outputs.iter().for_each(safe_range_proof));
			let bl = BlockListing { last_retrieved_height: cx.rng.next(), blocks: vec![] };
			drive(cx, "BlockListing", &bl, &[], &|_| ());
		}
		let t = Tip { height: cx.rng.next(), last_block_pushed: hx(&cx.rng.bytes(32)), prev_block_to_last: hx(&cx.rng.bytes(32)), total_difficulty: cx.rng.next() };
		drive(cx, "Tip", &t, &[], &|_| ());
		let v = Version { node_version: "5.4.0-alpha.0".to_string(), block_header_version: (cx.rng.next() & 0xffff) as u16 };
		drive(cx, "Version", &v, &[], &|_| ());
	}
	let _ = std::marker::PhantomData::<LocatedTxKernel>;
}

// ---------------------------------------------------------------------------------------------
// the real API object (`grin_api::Foreign`, what the v2 JSON-RPC and the v1 REST handlers call) on a real
// chain of 12 blocks, with arbitrary parameter values: every call under `catch` AND a watchdog (a call
// that has not returned after WATCHDOG_MS is a hang). EVERY parameter - the range ends included - takes
// boundary and huge values (2^40, 2^63, 2^64-1): get_unspent_outputs, get_outputs / outputs_block_batch
// and get_blocks looped over the REQUESTED range until repairs 565fae636, 2b0ddc88a, be3c15eed (findings
// C11-api-elements-from-pmmr-index-unbounded, C11-api-outputs-block-batch-unbounded,
// C11-api-get-blocks-unbounded); a hang or panic on a range parameter prints
// `#ORACLE-FAIL C11 api-unbounded-range <fn> <params>` again.

const WATCHDOG_MS: u64 = 4000;

type Api = grin_api::Foreign<grin_servers::common::adapters::PoolToChainAdapter, grin_servers::common::adapters::PoolToNetAdapter>;

struct Node {
	api: std::sync::Arc<Api>,
	_chain: std::sync::Arc<grin_chain::Chain>,
	_pool: std::sync::Arc<grin_util::RwLock<grin_pool::TransactionPool<grin_servers::common::adapters::PoolToChainAdapter, grin_servers::common::adapters::PoolToNetAdapter>>>,
	_sync: std::sync::Arc<grin_chain::SyncState>,
	commits: Vec<String>,
	hashes: Vec<String>,
	head: u64,
}

fn mk_node() -> Option<Node> {
	use gvharness::chainkit::*;
	use std::sync::Arc;
	let work = std::env::var("VERIF_WORK").unwrap_or_else(|_| "/verif/work/serapi".to_string());
	let mut kit = Kit::new(&format!("{}/kit", work));
	let dir = format!("{}/node", work);
	let _ = std::fs::remove_dir_all(&dir);
	let chain = Arc::new(init_chain(&dir, kit.genesis.clone()).ok()?);
	let mut parent = 0usize;
	for _ in 0..12 {
		let id = kit.new_block(parent, 3, &[]).ok()?;
		let b = kit.blks[id].block.clone();
		chain.process_block(b, grin_chain::Options::SKIP_POW).ok()?;
		parent = id;
	}
	let dcfg = grin_pool::DandelionConfig { epoch_secs: 60_000, embargo_secs: 0, aggregation_secs: 0, stem_probability: 0, always_stem_our_txs: false };
	let pool_adapter = Arc::new(grin_servers::common::adapters::PoolToChainAdapter::new());
	let net = Arc::new(grin_servers::common::adapters::PoolToNetAdapter::new(dcfg));
	let pool = Arc::new(grin_util::RwLock::new(grin_pool::TransactionPool::new(
		grin_pool::types::PoolConfig { accept_fee_base: 1, reorg_cache_period: 30, max_pool_size: 50, max_stempool_size: 50, mineable_max_weight: 400 },
		pool_adapter.clone(),
		net,
	)));
	pool_adapter.set_chain(chain.clone());
	let sync = Arc::new(grin_chain::SyncState::new());
	let api = Arc::new(grin_api::Foreign::new(Arc::downgrade(&chain), Arc::downgrade(&pool), Arc::downgrade(&sync)));
	let commits: Vec<String> = kit.blks.iter().flat_map(|b| b.block.outputs().iter().map(|o| hx(&o.commitment().0)).collect::<Vec<_>>()).collect();
	let hashes: Vec<String> = kit.blks.iter().map(|b| { use grin_core::core::hash::Hashed; hx(b.block.hash().as_bytes()) }).collect();
	let head = chain.head().ok()?.height;
	Some(Node { api, _chain: chain, _pool: pool, _sync: sync, commits, hashes, head })
}

/// run `f` on its own thread; Ok(class) | Err("panic …") | Err("HANG")
fn guarded<F: FnOnce() -> String + Send + 'static>(f: F) -> Result<String, String> {
	let (tx, rx) = std::sync::mpsc::channel();
	std::thread::spawn(move || {
		gvharness::chainkit::setup_globals();
		let r = catch(AssertUnwindSafe(f));
		let _ = tx.send(r);
	});
	match rx.recv_timeout(std::time::Duration::from_millis(WATCHDOG_MS)) {
		Ok(Ok(c)) => Ok(c),
		Ok(Err(m)) => Err(format!("panic {}", m.replace('\n', " "))),
		Err(_) => Err("HANG".to_string()),
	}
}

fn cls<T, E>(r: Result<T, E>) -> String {
	if r.is_ok() { "ok".to_string() } else { "err".to_string() }
}

fn call(cx: &mut Cx, what: &str, desc: String, probe: bool, f: Box<dyn FnOnce() -> String + Send>) {
	let t0 = std::time::Instant::now();
	let r = guarded(f);
	let ms = t0.elapsed().as_millis();
	match r {
		Ok(c) => {
			cx.stat(&format!("handler {} {}", what, c));
			if probe {
				cx.out.raw(&format!("#STAT probe {} {} -> {} in {} ms", what, desc, c, ms));
			}
		}
		Err(e) => {
			if probe {
				cx.out.raw(&format!("#STAT probe {} {} -> {} (watchdog {} ms)", what, desc, e, WATCHDOG_MS));
			} else {
				cx.fail("C11", format!("api-unbounded-range {} {} -> {}", what, desc, e));
			}
		}
	}
}

fn handlers(cx: &mut Cx, probe: bool) {
	let node = match mk_node() {
		Some(n) => n,
		None => {
			cx.fail("C11", "api-handler: the test node could not be built".to_string());
			return;
		}
	};
	let head = node.head;
	let huge: Vec<u64> = vec![u64::MAX, u64::MAX - 1, 1 << 63, 1 << 40, 10_000_000_000];
	let small: Vec<u64> = vec![0, 1, 2, head - 1, head, head + 1, head + 64];
	if probe {
		// ranges far beyond the chain: the loops of get_blocks / get_unspent_outputs run over the REQUESTED range
		for end in [head + 1_000_000, 1 << 40, u64::MAX] {
			let a = node.api.clone();
			call(cx, "get_blocks", format!("start_height=0 end_height={} max=10", end), true, Box::new(move || cls(a.get_blocks(0, end, 10, None))));
			let a = node.api.clone();
			call(cx, "get_blocks", format!("start_height=0 end_height={} max=1000 (more than the chain has)", end), true, Box::new(move || cls(a.get_blocks(0, end, 1000, None))));
			let a = node.api.clone();
			call(cx, "get_unspent_outputs", format!("start_index=1 end_index={} max=1000", end), true, Box::new(move || cls(a.get_unspent_outputs(1, Some(end), 1000, None))));
			let a = node.api.clone();
			call(cx, "get_outputs", format!("commits=None start_height=0 end_height={}", end), true, Box::new(move || cls(a.get_outputs(None, Some(0), Some(end), None, None))));
		}
		return;
	}
	// get_blocks / get_unspent_outputs / get_pmmr_indices: ranges within head + 64, every other parameter free
	for s in small.iter().chain(huge.iter()) {
		for e in small.iter().chain(huge.iter()) {
			for max in [0u64, 1, 10, 1000, u64::MAX] {
				let (a, s, e) = (node.api.clone(), *s, *e);
				call(cx, "get_blocks", format!("start={} end={} max={}", s, e, max), false, Box::new(move || cls(a.get_blocks(s, e, max, Some(max % 2 == 0)))));
				let (a, s, e) = (node.api.clone(), s, e);
				call(cx, "get_unspent_outputs", format!("start={} end={} max={}", s, e, max), false, Box::new(move || cls(a.get_unspent_outputs(s, Some(e), max, Some(true)))));
			}
			let (a, s2, e2) = (node.api.clone(), *s, *e);
			call(cx, "get_pmmr_indices", format!("start={} end={}", s2, e2), false, Box::new(move || cls(a.get_pmmr_indices(s2, Some(e2)))));
			let (a, s2, e2) = (node.api.clone(), *s, *e);
			call(cx, "get_outputs", format!("range {}..{}", s2, e2), false, Box::new(move || cls(a.get_outputs(None, Some(s2), Some(e2), Some(true), Some(true)))));
		}
		let (a, s2) = (node.api.clone(), *s);
		call(cx, "get_unspent_outputs", format!("start={} end=None", s2), false, Box::new(move || cls(a.get_unspent_outputs(s2, None, 100, None))));
		let (a, s2) = (node.api.clone(), *s);
		call(cx, "get_pmmr_indices", format!("start={} end=None", s2), false, Box::new(move || cls(a.get_pmmr_indices(s2, None))));
		let (a, s2) = (node.api.clone(), *s);
		call(cx, "get_header", format!("height={}", s2), false, Box::new(move || cls(a.get_header(Some(s2), None, None))));
		let (a, s2) = (node.api.clone(), *s);
		call(cx, "get_block", format!("height={}", s2), false, Box::new(move || cls(a.get_block(Some(s2), None, None))));
	}
	// ids: real commitments / hashes, every odd string, lists with bad members
	let mut ids: Vec<String> = ODD_STRINGS.iter().map(|x| x.to_string()).collect();
	ids.extend(node.commits.iter().take(6).cloned());
	ids.extend(node.hashes.iter().take(4).cloned());
	ids.push("ab".repeat(5000));
	for id in ids.iter() {
		let (a, i) = (node.api.clone(), id.clone());
		call(cx, "get_header", "commit=<id>".to_string(), false, Box::new(move || cls(a.get_header(None, None, Some(i)))));
		let (a, i) = (node.api.clone(), id.clone());
		call(cx, "get_block", "commit=<id>".to_string(), false, Box::new(move || cls(a.get_block(None, None, Some(i)))));
		let (a, i) = (node.api.clone(), id.clone());
		call(cx, "get_header", "hash=<id>".to_string(), false, Box::new(move || cls(grin_util::from_hex(&i).map_err(|_| ()).and_then(|v| a.get_header(None, Some(Hash::from_vec(&v)), None).map_err(|_| ())))));
		for (mn, mx) in [(None, None), (Some(0), Some(0)), (Some(u64::MAX), Some(0)), (Some(5), Some(head + 64)), (Some(0), Some(u64::MAX))] {
			let (a, i) = (node.api.clone(), id.clone());
			call(cx, "get_kernel", "excess=<id>".to_string(), false, Box::new(move || cls(a.get_kernel(i, mn, mx))));
		}
		let (a, i, good) = (node.api.clone(), id.clone(), node.commits[0].clone());
		call(cx, "get_outputs", "commits=[good,<id>,good]".to_string(), false, Box::new(move || cls(a.get_outputs(Some(vec![good.clone(), i, good]), None, None, Some(true), Some(true)))));
	}
	let a = node.api.clone();
	call(cx, "get_outputs", "commits=[]".to_string(), false, Box::new(move || cls(a.get_outputs(Some(vec![]), None, None, None, None))));
	let a = node.api.clone();
	call(cx, "get_tip", String::new(), false, Box::new(move || cls(a.get_tip())));
}

fn probe(cx: &mut Cx) {
	finish_lines(cx, true);
	rp_line(cx, Some(""), true);
	rp_line(cx, Some("00"), true);
	let h = hx(&cx.rng.bytes(674));
	rp_line(cx, Some(&h), true);
	let h = hx(&cx.rng.bytes(675));
	rp_line(cx, Some(&h), true);
}

fn main() {
	quiet_panics();
	grin_core::global::set_local_chain_type(grin_core::global::ChainTypes::AutomatedTesting);
	let args: Vec<String> = std::env::args().collect();
	let mut cx = Cx { out: Out::stdout(), rng: Rng::new(seed_from_env() ^ 0xa91), stats: BTreeMap::new(), fails: 0 };
	match args.get(1).map(|s| s.as_str()) {
		Some("probe") => probe(&mut cx),
		Some("handlers") => handlers(&mut cx, false),
		Some("handlers-probe") => handlers(&mut cx, true),
		_ => registered(&mut cx),
	}
	let stats = std::mem::take(&mut cx.stats);
	for (k, v) in stats {
		cx.out.raw(&format!("#STAT {} = {}", k, v));
	}
	cx.out.raw(&format!("#STAT oracle failures = {}", cx.fails));
	cx.out.flush();
}
