//! Helpers of `bin/chain.rs` (included there with `#[path]`): a chain adapter that records what
//! the node tells it about every accepted block (C03 observation point
//! `ChainAdapter::block_accepted`), and the other ways the node REPORTS its unspent outputs
//! (C02: `unspent_outputs_by_pmmr_index`, `get_unspent` with position and height,
//! `get_unspent_output_at`, `get_header_for_output`, `block_height_range_to_pmmr_indices`).
use grin_chain::types::{BlockStatus, ChainAdapter, Options};
use grin_chain::Chain;
use grin_core::core::hash::{Hash, Hashed};
use grin_core::core::Block;
use grin_core::pow;
use gvharness::chainkit::*;
use gvharness::*;
use std::collections::BTreeMap;
use std::sync::{Arc, Mutex};

static STATUS_LOG: Mutex<Vec<(Hash, BlockStatus, u32)>> = Mutex::new(Vec::new());

pub struct RecAdapter {}

impl ChainAdapter for RecAdapter {
	fn block_accepted(&self, b: &Block, status: BlockStatus, opts: Options) {
		STATUS_LOG.lock().unwrap().push((b.hash(), status, opts.bits()));
	}
}

fn init_chain_rec(dir: &str, genesis: Block) -> Result<Chain, grin_chain::Error> {
	Chain::init(dir.to_string(), Arc::new(RecAdapter {}), genesis, pow::verify_size, false, None)
}

/// a subject whose adapter records every notification
pub fn new_rec_subject(dir: &str, genesis: &Block) -> Subject {
	let _ = std::fs::remove_dir_all(dir);
	let chain = init_chain_rec(dir, genesis.clone()).unwrap();
	Subject {
		dir: dir.to_string(),
		chain: Some(chain),
		genesis: genesis.clone(),
	}
}

/// restart of a recording subject
pub fn reopen_rec(s: &mut Subject) -> Result<(), String> {
	s.chain = None;
	match init_chain_rec(&s.dir, s.genesis.clone()) {
		Ok(c) => {
			s.chain = Some(c);
			Ok(())
		}
		Err(e) => Err(error_class(&e)),
	}
}

pub fn status_str(kit: &Kit, st: &BlockStatus) -> String {
	match st {
		BlockStatus::Next { prev } => format!("next:{}", kit.bid(&prev.last_block_h)),
		BlockStatus::Fork { prev, head, fork_point } => format!(
			"fork:{}:{}:{}",
			kit.bid(&prev.last_block_h),
			kit.bid(&head.last_block_h),
			kit.bid(&fork_point.last_block_h)
		),
		BlockStatus::Reorg { prev, prev_head, fork_point } => format!(
			"reorg:{}:{}:{}",
			kit.bid(&prev.last_block_h),
			kit.bid(&prev_head.last_block_h),
			kit.bid(&fork_point.last_block_h)
		),
	}
}

/// everything the adapter was told since the last call, in order: `[b5:next:b4,b6:reorg:b5:b3:b2]`
pub fn drain_status(kit: &Kit) -> (String, Vec<(Hash, BlockStatus)>) {
	let evs: Vec<(Hash, BlockStatus)> = STATUS_LOG.lock().unwrap().drain(..).map(|(h, st, _)| (h, st)).collect();
	let l: Vec<String> = evs.iter().map(|(h, st)| format!("{}:{}", kit.bid(h), status_str(kit, st))).collect();
	(format!("[{}]", l.join(",")), evs)
}

/// as `drain_status`, every notification with the options the adapter was handed with it:
/// `[b5:next:b4:o3,b6:reorg:b5:b3:b2:o1]` (bits: SKIP_POW 1, SYNC 2, MINE 4)
pub fn drain_status_opts(kit: &Kit) -> (String, Vec<(Hash, BlockStatus)>) {
	let evs: Vec<(Hash, BlockStatus, u32)> = STATUS_LOG.lock().unwrap().drain(..).collect();
	let l: Vec<String> = evs.iter().map(|(h, st, o)| format!("{}:{}:o{}", kit.bid(h), status_str(kit, st), o)).collect();
	(format!("[{}]", l.join(",")), evs.into_iter().map(|(h, st, _)| (h, st)).collect())
}

pub fn discard_status() {
	STATUS_LOG.lock().unwrap().clear();
}

fn is_ancestor(kit: &Kit, anc: usize, mut of: usize) -> bool {
	loop {
		if of == anc {
			return true;
		}
		match kit.blks[of].parent {
			Some(p) => of = p,
			None => return false,
		}
	}
}

/// C03 oracle on the notifications of one `process_block` call, evaluated on the implementation:
/// what the property fixes is that a notification says "head moved" (Next / Reorg) exactly for the
/// blocks that became head, names the right parent, and that the fork point is the last common
/// block of the old head's chain and the block's parent's chain. Next-vs-Reorg is decided by the
/// code against the HEADER MMR (model: `Model/ChainStatus.lean`): a plain extension reported as a
/// reorganisation, or a reorganisation reported as Next, is counted (`stats`) and compared with the
/// model, not failed here.
pub fn status_oracle(
	out: &mut Out,
	kit: &Kit,
	name: &str,
	head_before: Hash,
	evs: &[(Hash, BlockStatus)],
	stats: &mut BTreeMap<String, u64>,
) {
	let mut cur_head = match kit.by_hash.get(&head_before) {
		Some(i) => *i,
		None => return,
	};
	for (h, st) in evs {
		let b = match kit.by_hash.get(h) {
			Some(i) => *i,
			None => continue,
		};
		let par = match kit.blks[b].parent {
			Some(p) => p,
			None => continue,
		};
		let lca = {
			let mut a = par;
			loop {
				if is_ancestor(kit, a, cur_head) {
					break a;
				}
				match kit.blks[a].parent {
					Some(p) => a = p,
					None => break 0,
				}
			}
		};
		let more_work = kit.blks[b].work > kit.blks[cur_head].work;
		let mut bad: Option<String> = None;
		match st {
			BlockStatus::Next { prev } => {
				if !more_work {
					bad = Some("Next for a block that has no more work than the head".into());
				} else if kit.by_hash.get(&prev.last_block_h) != Some(&par) {
					bad = Some("Next names a wrong parent".into());
				}
				if par != cur_head {
					*stats.entry("status:reorganisation-reported-as-next".into()).or_insert(0) += 1;
				} else {
					*stats.entry("status:next".into()).or_insert(0) += 1;
				}
			}
			BlockStatus::Reorg { prev, prev_head, fork_point } => {
				if !more_work {
					bad = Some("Reorg for a block that has no more work than the head".into());
				} else if kit.by_hash.get(&prev.last_block_h) != Some(&par) {
					bad = Some("Reorg names a wrong parent".into());
				} else if kit.by_hash.get(&prev_head.last_block_h) != Some(&cur_head) {
					bad = Some("Reorg names a wrong previous head".into());
				} else if kit.by_hash.get(&fork_point.last_block_h) != Some(&lca) {
					bad = Some(format!("Reorg names a wrong fork point (the last common block is b{})", lca));
				}
				if par == cur_head {
					*stats.entry("status:plain-extension-reported-as-reorg".into()).or_insert(0) += 1;
				} else {
					*stats.entry(format!("status:reorg:depth={}", kit.blks[cur_head].height - kit.blks[lca].height)).or_insert(0) += 1;
				}
			}
			BlockStatus::Fork { prev, head, fork_point } => {
				if more_work {
					bad = Some("Fork for a block that has more work than the head".into());
				} else if kit.by_hash.get(&prev.last_block_h) != Some(&par) {
					bad = Some("Fork names a wrong parent".into());
				} else if kit.by_hash.get(&head.last_block_h) != Some(&cur_head) {
					bad = Some("Fork names a wrong head".into());
				} else if kit.by_hash.get(&fork_point.last_block_h) != Some(&lca) {
					bad = Some(format!("Fork names a wrong fork point (the last common block is b{})", lca));
				}
				*stats.entry("status:fork".into()).or_insert(0) += 1;
			}
		}
		if let Some(m) = bad {
			out.raw(&format!(
				"#ORACLE-FAIL C03 block_accepted notification: subject={} b{} (parent b{}, work {}) accepted while the head was b{} (work {}): status {} - {}",
				name,
				b,
				par,
				kit.blks[b].work,
				cur_head,
				kit.blks[cur_head].work,
				status_str(kit, st),
				m
			));
		}
		if more_work {
			cur_head = b;
		}
	}
}

fn oid(kit: &Kit, c: &grin_util::secp::pedersen::Commitment) -> String {
	kit.by_commit.get(c).map(|i| format!("o{}", i)).unwrap_or("o?".to_string())
}

fn enum_line(out: &mut Out, kit: &Kit, s: &Subject, name: &str, start: u64, count: u64, max: Option<u64>) -> Option<(u64, Vec<String>)> {
	let lhs = format!(
		"chain enum {} start={} count={} max={}",
		name,
		start,
		count,
		max.map(|m| m.to_string()).unwrap_or("-".to_string())
	);
	match s.c().unspent_outputs_by_pmmr_index(start, count, max) {
		Ok((next, last, outs)) => {
			let l: Vec<String> = outs.iter().map(|o| oid(kit, &o.commitment())).collect();
			out.line(&lhs, &format!("next={} last={} outs=[{}]", next, last, l.join(",")));
			Some((next, l))
		}
		Err(e) => {
			out.line(&lhs, &format!("err:{}", error_class(&e)));
			None
		}
	}
}

/// The reporting paths of the unspent set, printed for the model and checked against `get_unspent`
/// on the implementation itself (C02: every path must report the same set).
pub fn report_lines(out: &mut Out, rng: &mut Rng, kit: &Kit, s: &Subject, name: &str, stats: &mut BTreeMap<String, u64>) {
	let chain = s.c();
	// (1) get_unspent with position and height, for every commitment ever built
	let mut unspent: Vec<(usize, u64, u64)> = vec![];
	for o in &kit.outs {
		if let Ok(Some((_, cp))) = chain.get_unspent(o.commit) {
			unspent.push((o.id, cp.pos, cp.height));
		}
	}
	let l: Vec<String> = unspent.iter().map(|(i, p, h)| format!("o{}:{}:{}", i, p, h)).collect();
	out.line(&format!("chain upos {}", name), &format!("[{}]", l.join(",")));
	let size = chain.txhashset().read().output_mmr_size();
	// (2) the whole enumeration in one call: must be the same set, in position order
	let mut by_pos = unspent.clone();
	by_pos.sort_by_key(|x| x.1);
	let want: Vec<String> = by_pos.iter().map(|x| format!("o{}", x.0)).collect();
	for start in [1u64, 0] {
		if let Some((_, got)) = enum_line(out, kit, s, name, start, 100_000, None) {
			if got != want {
				out.raw(&format!(
					"#ORACLE-FAIL C02 unspent_outputs_by_pmmr_index({}, 100000, None) on subject {} reports [{}] but get_unspent reports (in position order) [{}]",
					start,
					name,
					got.join(","),
					want.join(",")
				));
			}
		}
	}
	// (3) the same in pages, the way the API is used: the next page starts behind the last index
	let page = if want.len() > 40 { *rng.pick(&[7u64, 16, 33, 64]) } else { *rng.pick(&[1u64, 2, 3, 5]) };
	let mut start = 1u64;
	let mut paged: Vec<String> = vec![];
	let mut pages = 0;
	let do_pages = rng.chance(1, 3);
	if !do_pages {
		paged = want.clone();
	}
	while do_pages {
		match enum_line(out, kit, s, name, start, page, None) {
			Some((next, got)) => {
				paged.extend(got);
				pages += 1;
				if next >= size || pages >= 400 {
					break;
				}
				start = next + 1;
			}
			None => break,
		}
	}
	if paged != want && pages < 400 {
		out.raw(&format!(
			"#ORACLE-FAIL C02 unspent_outputs_by_pmmr_index in pages of {} on subject {} reports [{}] but get_unspent reports (in position order) [{}]",
			page,
			name,
			paged.join(","),
			want.join(",")
		));
	}
	*stats.entry(format!("report:pages-of-{}", page)).or_insert(0) += pages;
	// (4) windows: start and bound around the size, around a leaf, anywhere
	for _ in 0..3 {
		let start = match rng.below(4) {
			0 => size,
			1 => size + 1,
			2 => by_pos.get(rng.below(by_pos.len().max(1) as u64) as usize).map(|x| x.1).unwrap_or(1),
			_ => rng.below(size + 2),
		};
		let max = match rng.below(8) {
			// far beyond the MMR (the loop must not walk to the requested bound: repair 565fae636)
			6 => Some(1u64 << 40),
			7 => Some(u64::MAX),
			0 => None,
			1 => Some(size),
			2 => Some(size.saturating_sub(1)),
			3 => Some(size + 1 + rng.below(3)),
			4 => by_pos.get(rng.below(by_pos.len().max(1) as u64) as usize).map(|x| x.1 - rng.below(2)),
			_ => Some(rng.below(size + 1)),
		};
		let count = *rng.pick(&[0u64, 1, 2, 4, 1000]);
		if let Some((_, got)) = enum_line(out, kit, s, name, start, count, max) {
			// whatever the window: only unspent outputs, in position order, inside the window
			let lo = start.saturating_sub(1);
			let hi = max.unwrap_or(size);
			let inside: Vec<String> = by_pos
				.iter()
				.filter(|x| x.1 - 1 >= lo && x.1 - 1 < hi)
				.map(|x| format!("o{}", x.0))
				.take(count as usize)
				.collect();
			if got != inside {
				out.raw(&format!(
					"#ORACLE-FAIL C02 unspent_outputs_by_pmmr_index({}, {}, {:?}) on subject {} reports [{}] but the unspent outputs at positions {}..{} are [{}]",
					start,
					count,
					max,
					name,
					got.join(","),
					lo,
					hi,
					inside.join(",")
				));
			}
		}
		*stats.entry("report:windows".into()).or_insert(0) += 1;
	}
	// (5) get_unspent_output_at: at the position of every unspent output, one position before and
	// behind it, and at the position of a spent output
	let mut probes: Vec<u64> = vec![];
	for x in by_pos.iter() {
		probes.push(x.1 - 1);
	}
	for _ in 0..4 {
		probes.push(rng.below(size + 2));
	}
	probes.sort();
	probes.dedup();
	let mut l: Vec<String> = vec![];
	for p in &probes {
		match chain.get_unspent_output_at(*p) {
			Ok(o) => {
				let id = oid(kit, &o.commitment());
				if !by_pos.iter().any(|x| x.1 - 1 == *p && format!("o{}", x.0) == id) {
					out.raw(&format!(
						"#ORACLE-FAIL C02 get_unspent_output_at({}) on subject {} returns {} which get_unspent does not report unspent at that position",
						p, name, id
					));
				}
				l.push(format!("{}:{}", p, id));
			}
			Err(_) => {
				if let Some(x) = by_pos.iter().find(|x| x.1 - 1 == *p) {
					out.raw(&format!(
						"#ORACLE-FAIL C02 get_unspent_output_at({}) on subject {} finds nothing but get_unspent reports o{} unspent there",
						p, name, x.0
					));
				}
				l.push(format!("{}:-", p));
			}
		}
	}
	out.line(&format!("chain outat {}", name), &format!("[{}]", l.join(",")));
	// (6) get_header_for_output: the header at the output's height in the HEADER MMR
	let head = chain.head().unwrap();
	let hhead = chain.header_head().unwrap();
	let head_id = kit.by_hash.get(&head.last_block_h).cloned();
	let mut l: Vec<String> = vec![];
	for (i, _, h) in &unspent {
		match chain.get_header_for_output(kit.outs[*i].commit) {
			Ok(hd) => {
				let got = kit.bid(&hd.hash());
				// the block of the head's own chain at the output's height
				let mut want = None;
				let mut cur = head_id;
				while let Some(b) = cur {
					if kit.blks[b].height == *h {
						want = Some(format!("b{}", b));
						break;
					}
					cur = kit.blks[b].parent;
				}
				if Some(got.clone()) != want {
					*stats.entry("report:header-for-output-names-a-block-of-another-fork".into()).or_insert(0) += 1;
				} else {
					*stats.entry("report:header-for-output-right".into()).or_insert(0) += 1;
				}
				l.push(format!("o{}:{}", i, got));
			}
			Err(_) => {
				*stats.entry("report:header-for-output-not-found".into()).or_insert(0) += 1;
				l.push(format!("o{}:err", i));
			}
		}
	}
	out.line(&format!("chain hdrfor {}", name), &format!("[{}]", l.join(",")));
	// (7) block_height_range_to_pmmr_indices: heights are looked up in the HEADER MMR, whether the
	// header head is the body head, ahead of it or on another fork; `None` as the end is the height
	// of the BODY head; heights beyond the header chain (one beyond: nothing at that position; at
	// or beyond the MMR's size in positions: refused as a height)
	{
		let rel = if head.last_block_h == hhead.last_block_h { "header-head=body-head" } else { "header-head!=body-head" };
		let mmr_size = grin_core::core::pmmr::insertion_to_pmmr_index(hhead.height + 1);
		for k in 0..4 {
			let a = rng.below(hhead.height + 1);
			let (b, kind): (Option<u64>, &str) = match k {
				0 | 1 => (Some(a + rng.below(hhead.height + 1 - a)), "inside"),
				2 => match rng.below(3) {
					0 => (None, "end=None"),
					1 => (Some(hhead.height + 1 + rng.below(2)), "just-beyond"),
					_ => (Some(mmr_size + rng.below(3)), "beyond-mmr-size"),
				},
				_ => (Some(a + rng.below(hhead.height + 1 - a)), "inside"),
			};
			let a = if k == 3 && rng.chance(1, 3) { hhead.height + 2 + rng.below(mmr_size + 2) } else { a };
			let r = match chain.block_height_range_to_pmmr_indices(a, b) {
				Ok((s, e)) => format!("{},{}", s, e),
				Err(e) => format!("err:{}", error_class(&e)),
			};
			out.line(&format!("chain hrange {} {} {}", name, a, b.map(|x| x.to_string()).unwrap_or("-".to_string())), &r);
			*stats.entry(format!("report:hrange:{}:{}:{}", rel, kind, if r.starts_with("err") { r.as_str() } else { "ok" })).or_insert(0) += 1;
		}
	}
}

// ---------------------------------------------------------------------------------------------
// C15 at chain level: discarded (read-only or rolled-back) extensions must leave the in-memory
// leaf set and bitmap accumulator at the head state.

/// blocks from the genesis to `id`, root first
pub fn path_to(kit: &Kit, id: usize) -> Vec<usize> {
	let mut p = vec![id];
	let mut cur = id;
	while let Some(q) = kit.blks[cur].parent {
		p.push(q);
		cur = q;
	}
	p.reverse();
	p
}

/// The bitmap root computed FROM SCRATCH and independently of the node: the blocks of the head's
/// own path are replayed here (outputs get consecutive leaf indices in block order, inputs remove
/// the latest instance of their commitment), then a fresh `BitmapAccumulator` is initialised from
/// the unspent leaf indices. Returns (root, number of unspent leaves, number of leaves).
pub fn scratch_bitmap_root(kit: &Kit, head: usize) -> (Hash, usize, u64) {
	use grin_chain::txhashset::BitmapAccumulator;
	use std::collections::{BTreeSet, HashMap};
	let mut idx_of: HashMap<grin_util::secp::pedersen::Commitment, u64> = HashMap::new();
	let mut unspent: BTreeSet<u64> = BTreeSet::new();
	let mut n = 0u64;
	for b in path_to(kit, head) {
		let blk = &kit.blks[b].block;
		for o in blk.outputs() {
			idx_of.insert(o.commitment(), n);
			unspent.insert(n);
			n += 1;
		}
		let ins: Vec<grin_core::core::CommitWrapper> = blk.inputs().into();
		for i in ins {
			if let Some(ix) = idx_of.get(&i.commitment()) {
				unspent.remove(ix);
			}
		}
	}
	let mut a = BitmapAccumulator::new();
	a.init(unspent.iter().cloned(), n).expect("bitmap init");
	(a.root(), unspent.len(), n)
}

/// C15 oracle on the implementation: the bitmap root the node commits to (in-memory accumulator)
/// is the root computed from scratch over the unspent set of the head's own path
pub fn bitmap_oracle(out: &mut Out, kit: &Kit, s: &Subject, name: &str, stage: &str, stats: &mut BTreeMap<String, u64>) {
	let head = s.c().head().unwrap().last_block_h;
	let hid = match kit.by_hash.get(&head) {
		Some(i) => *i,
		None => return,
	};
	let (want, n_unspent, n) = scratch_bitmap_root(kit, hid);
	let got = {
		let ts = s.c().txhashset();
		let ts = ts.read();
		ts.roots().map(|r| r.output_roots.bitmap_root)
	};
	*stats.entry("c15:bitmap-root-vs-scratch".into()).or_insert(0) += 1;
	match got {
		Ok(g) if g == want => {}
		Ok(g) => out.raw(&format!(
			"#ORACLE-FAIL C15 bitmap root the node commits to differs from the root computed from scratch over the unspent set of its head's path: subject={} head=b{} stage={} node={} scratch={} ({} unspent of {} leaves)",
			name,
			hid,
			stage,
			hex(&g.as_bytes()[..8]),
			hex(&want.as_bytes()[..8]),
			n_unspent,
			n
		)),
		Err(e) => out.raw(&format!("#ORACLE-FAIL C15 roots() failed: subject={} head=b{} stage={}: {}", name, hid, stage, error_class(&e))),
	}
}

/// number of outputs created and inputs spent by a block
pub fn shape(kit: &Kit, b: usize) -> (usize, usize) {
	(kit.blks[b].block.outputs().len(), kit.blks[b].block.inputs().len())
}

/// Discarded extensions that rewind: `get_merkle_proof` for an output of an OLDER header (0..3 blocks
/// below the head, sometimes deeper), sometimes `txhashset_read(older header)` and `segmenter()`.
/// Every one of them must be a no-op for every observation: head / unspent set / roots before and
/// after, the bitmap root against the from-scratch root, and (printed for the model) the unspent set.
pub fn discarded_ops(out: &mut Out, rng: &mut Rng, kit: &Kit, s: &Subject, name: &str, stats: &mut BTreeMap<String, u64>) {
	let chain = s.c();
	let head = chain.head().unwrap().last_block_h;
	let hid = match kit.by_hash.get(&head) {
		Some(i) => *i,
		None => return,
	};
	let path = path_to(kit, hid);
	if path.len() < 2 {
		return;
	}
	let before = (s.obs(kit), s.roots());
	let mut done: Vec<String> = vec![];
	// the range an op rewinds over: balanced (as many outputs created as spent) or not
	let mut note = |stats: &mut BTreeMap<String, u64>, what: &str, below: usize| {
		let (mut c, mut sp) = (0usize, 0usize);
		for b in &path[path.len() - below..] {
			let (o, i) = shape(kit, *b);
			c += o;
			sp += i;
		}
		let bal = if below == 0 {
			"no-rewind"
		} else if c == sp {
			"rewind-restores-as-many-as-it-drops"
		} else {
			"rewind-unbalanced"
		};
		*stats.entry(format!("c15:discarded:{}:{}", what, bal)).or_insert(0) += 1;
	};
	for _ in 0..(1 + rng.below(2)) {
		let max_below = (path.len() - 1).min(3);
		// rewinds over a range that creates as many outputs as it spends are preferred when there is one
		let balanced_belows: Vec<usize> = (1..=max_below)
			.filter(|below| {
				let (mut c, mut sp) = (0usize, 0usize);
				for b in &path[path.len() - below..] {
					let (o, i) = shape(kit, *b);
					c += o;
					sp += i;
				}
				c == sp
			})
			.collect();
		let below = if !balanced_belows.is_empty() && rng.chance(2, 3) {
			*rng.pick(&balanced_belows)
		} else if rng.chance(1, 8) {
			rng.below(path.len() as u64) as usize
		} else {
			rng.below(max_below as u64 + 1) as usize
		};
		let anc = path[path.len() - 1 - below];
		let hdr = kit.blks[anc].block.header.clone();
		// an output of that header's block (its coinbase), or of an older one
		let src = path[rng.below((path.len() - below) as u64) as usize];
		let o = kit.blks[src].block.outputs()[0].clone();
		let r = chain.get_merkle_proof(o.identifier(), &hdr);
		note(stats, "merkle-proof-at-older-header", below);
		done.push(format!("get_merkle_proof(output of b{}, header b{} = head-{}) = {}", src, anc, below, r.map(|_| "ok".to_string()).unwrap_or_else(|e| format!("err:{}", error_class(&e)))));
	}
	if rng.chance(1, 6) {
		let below = rng.below((path.len() - 1).min(3) as u64 + 1) as usize;
		let anc = path[path.len() - 1 - below];
		let r = chain.txhashset_read(kit.blks[anc].block.hash());
		note(stats, "txhashset_read-at-older-header", below);
		done.push(format!("txhashset_read(b{} = head-{}) = {}", anc, below, r.map(|_| "ok".to_string()).unwrap_or_else(|e| format!("err:{}", error_class(&e)))));
	}
	if rng.chance(1, 6) {
		let r = chain.segmenter();
		*stats.entry("c15:discarded:segmenter".into()).or_insert(0) += 1;
		done.push(format!("segmenter() = {}", r.map(|_| "ok".to_string()).unwrap_or_else(|e| format!("err:{}", error_class(&e)))));
	}
	let after = (s.obs(kit), s.roots());
	if before != after {
		out.raw(&format!(
			"#ORACLE-FAIL C15 a discarded extension changed what the node reports: subject={} head=b{} ops=[{}] before=[{} {}] after=[{} {}]",
			name,
			hid,
			done.join("; "),
			before.0,
			before.1,
			after.0,
			after.1
		));
	}
	// for the model: the unspent set is still the replay of the head's path
	out.line(&format!("chain obs {}", name), &after.0);
	bitmap_oracle(out, kit, s, name, "after-discarded-extensions", stats);
}

// ---------------------------------------------------------------------------------------------
// C08 at chain level: what compaction receives as "spent above the horizon".

/// The bitmap `TxHashSet::compact` computes with `input_pos_to_rewind` (private in grin_chain),
/// recomputed here over the node's own store exactly as that function does: from the head header
/// down to - excluding - the horizon header (`head height - cut_through_horizon`, looked up by height
/// as `Chain::compact` does), OR-ing `Batch::get_block_input_bitmap` of every block for which it
/// answers. Returns (horizon block, sorted 1-based positions).
pub fn protect_line(out: &mut Out, kit: &Kit, s: &Subject, name: &str, stats: &mut BTreeMap<String, u64>) {
	let chain = s.c();
	let head = match chain.head_header() {
		Ok(h) => h,
		Err(_) => return,
	};
	let hh = head.height.saturating_sub(grin_core::global::cut_through_horizon() as u64);
	let horizon = match chain.get_header_by_height(hh) {
		Ok(h) => h,
		Err(_) => return,
	};
	let store = chain.store();
	let batch = match store.batch() {
		Ok(b) => b,
		Err(_) => return,
	};
	let mut set: std::collections::BTreeSet<u32> = std::collections::BTreeSet::new();
	let mut cur = head.clone();
	let mut missing = 0u64;
	while cur.height > horizon.height {
		match batch.get_block_input_bitmap(&cur.hash()) {
			Ok(bm) => {
				for p in bm.iter() {
					set.insert(p);
				}
			}
			Err(_) => missing += 1,
		}
		cur = match batch.get_previous_header(&cur) {
			Ok(h) => h,
			Err(_) => break,
		};
	}
	let l: Vec<String> = set.iter().map(|p| p.to_string()).collect();
	out.line(&format!("chain protect {} hor={}", name, kit.bid(&horizon.hash())), &format!("[{}]", l.join(",")));
	*stats.entry("protect:walks".into()).or_insert(0) += 1;
	*stats.entry("protect:positions".into()).or_insert(0) += set.len() as u64;
	*stats.entry("protect:blocks-without-spent-index-record".into()).or_insert(0) += missing;
	// both ends of the `>`: what the head block spent is in, what the horizon block spent is not
	// (unless a later block spent the same position again, which cannot happen for a position)
	if let Ok(sp) = batch.get_spent_index(&head.hash()) {
		*stats.entry("protect:positions-spent-by-the-head-block".into()).or_insert(0) += sp.len() as u64;
		for cp in &sp {
			if !set.contains(&(cp.pos as u32)) {
				out.raw(&format!("#ORACLE-FAIL C08 position {} spent by the head block is missing from the bitmap compaction would protect (subject {})", cp.pos, name));
			}
		}
	}
	if horizon.height > 0 {
		if let Ok(sp) = batch.get_spent_index(&horizon.hash()) {
			*stats.entry("protect:positions-spent-by-the-horizon-block".into()).or_insert(0) += sp.len() as u64;
			for cp in &sp {
				if set.contains(&(cp.pos as u32)) {
					out.raw(&format!("#ORACLE-FAIL C08 position {} spent by the horizon block itself is in the bitmap of positions spent ABOVE the horizon (subject {})", cp.pos, name));
				}
			}
		}
	}
}

/// the body tail after a compaction: `remove_historical_blocks` deleted every stored block below it,
/// on every fork, together with its spent-index record and sums
pub fn tail_line(out: &mut Out, kit: &Kit, s: &Subject, name: &str) {
	if let Ok(t) = s.c().tail() {
		out.line(&format!("chain tail {}", name), &kit.bid(&t.last_block_h));
	}
}
