//! A PMMRable test element: opaque bytes written verbatim.
use grin_core::core::hash::DefaultHashable;
use grin_core::ser::{self, PMMRable, Readable, Reader, Writeable, Writer};

#[derive(Clone, Debug, PartialEq, Eq)]
pub struct Elem(pub Vec<u8>);

impl DefaultHashable for Elem {}

impl Writeable for Elem {
	fn write<W: Writer>(&self, writer: &mut W) -> Result<(), ser::Error> {
		writer.write_fixed_bytes(&self.0)
	}
}

/// Fixed 8-byte elements when read back from a data file.
impl Readable for Elem {
	fn read<R: Reader>(reader: &mut R) -> Result<Elem, ser::Error> {
		Ok(Elem(reader.read_fixed_bytes(8)?))
	}
}

impl PMMRable for Elem {
	type E = Self;
	fn as_elmt(&self) -> Self::E {
		self.clone()
	}
	fn elmt_size() -> Option<u16> {
		Some(8)
	}
}
