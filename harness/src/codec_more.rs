//! C19, session 9 (included by src/bin/codec.rs as `mod more`):
//!
//! * `csend` — CONCURRENT SENDERS through one `ConnHandle` (conn.rs): k threads, each holding a clone of the
//!   handle of one real `conn::listen` end, send their own lists of frames of different sizes at the same
//!   moment (barrier), while the remote writes Pings whose Pongs the reader thread pushes through the same
//!   channel.  The raw socket on the other side reads the byte stream.  Oracle (and driver, model
//!   `Model/CodecSend.lean`, theorems `Props/C19Send.lean`): the stream is a sequence of WHOLE frames that
//!   is an interleaving of the senders' lists (per-sender order kept, nothing lost below SEND_CHANNEL_CAP,
//!   nothing duplicated).  No timing in the oracle: the reader waits for a byte COUNT.
//!       codec csend <ver> <k> <frames of sender 0> … <frames of sender k-1> <stream hex> => merge
//! * `hstime` — the handshake under its READ timeouts (handshake.rs: HAND_READ_TIMEOUT / SHAKE_READ_TIMEOUT
//!   = 10 s): real pauses well below (4 s) and above (11.5 s) the timeout inside the Hand / the Shake and a
//!   silent peer, against the real `Handshake::accept` / `initiate`.  The compared line carries the schedule
//!   and the result; the elapsed time only enters through one-sided bounds (a timeout may not fire EARLY;
//!   the call must return at all).
//!       codec hstime accept|initiate <genesis> <[ms:hex,…]> => ok <version> | err Timeout | err <name>
use super::*;
use std::sync::Barrier;

fn frame_bytes<T: Writeable>(t: Type, body: &T, ver: u32) -> Vec<u8> {
	wire(&Msg::new(t, ext::RawBody(sv(body, ver)), ProtocolVersion(ver)).unwrap())
}

struct CsRes {
	ver: u32,
	lists: Vec<Vec<Vec<u8>>>,
	stream: Vec<u8>,
	send_errs: usize,
	trailing: usize,
}

/// one connection: `sizes[i]` messages from sender i, `n_pings` Pings from the remote (answered by the reader
/// thread through the same channel: the last "sender")
fn run_csend(ver: u32, seed: u64, sizes: &[usize], n_pings: usize) -> Option<CsRes> {
	let mut rng = Rng::new(seed);
	let listener = TcpListener::bind("127.0.0.1:0").ok()?;
	let a_sock = TcpStream::connect(listener.local_addr().ok()?).ok()?;
	let (mut b_sock, _) = listener.accept().ok()?;
	let _ = b_sock.set_nodelay(true);
	let tr = Arc::new(Tracker::new());
	let seen = Arc::new(Mutex::new(ext::Seen2::default()));
	let (ha, stop) = listen(a_sock, ProtocolVersion(ver), tr, ext::Recorder2 { ver, work: std::path::PathBuf::new(), id: 0, scripted: false, seen }).ok()?;
	// per sender: its messages (as `Msg`) and the frames they must appear as
	let mut lists: Vec<Vec<Vec<u8>>> = vec![];
	let mut msgs: Vec<Vec<Msg>> = vec![];
	for (i, n) in sizes.iter().enumerate() {
		let (mut fl, mut ml) = (vec![], vec![]);
		for j in 0..*n {
			// frames of 27 … ~700 bytes, every one different (random content; sender and sequence in the Ping height)
			let (t, body): (Type, Vec<u8>) = match rng.below(4) {
				0 => (Type::Ping, sv(&Ping { total_difficulty: Difficulty::from_num(rng.below(1 << 50)), height: (i * 1000 + j) as u64 }, ver)),
				1 => (Type::GetHeaders, sv(&Locator { hashes: (0..1 + rng.below(20)).map(|_| hash32(&mut rng)).collect() }, ver)),
				2 => (Type::PeerAddrs, sv(&PeerAddrs { peers: (0..1 + rng.below(30)).map(|_| gen_addr(&mut rng)).collect() }, ver)),
				_ => (Type::GetBlock, sv(&hash32(&mut rng), ver)),
			};
			let m = Msg::new(t, ext::RawBody(body), ProtocolVersion(ver)).ok()?;
			fl.push(wire(&m));
			ml.push(m);
		}
		lists.push(fl);
		msgs.push(ml);
	}
	// the Pongs the reader thread will push into the same channel
	let mut pongs = vec![];
	let mut pings = vec![];
	for j in 0..n_pings {
		let p = Ping { total_difficulty: Difficulty::from_num(rng.below(1 << 50)), height: 900_000 + j as u64 };
		pings.push(frame_bytes(Type::Ping, &p, ver));
		pongs.push(frame_bytes(Type::Pong, &Pong { total_difficulty: p.total_difficulty, height: p.height }, ver));
	}
	lists.push(pongs);
	let total: usize = lists.iter().map(|l| l.iter().map(|f| f.len()).sum::<usize>()).sum();
	let barrier = Arc::new(Barrier::new(sizes.len() + 1));
	let handles: Vec<_> = msgs
		.into_iter()
		.map(|ml| {
			let (h, b) = (ha.clone(), barrier.clone());
			std::thread::spawn(move || {
				b.wait();
				let mut errs = 0;
				for m in ml {
					if h.send(m).is_err() {
						errs += 1;
					}
					// give the other senders a chance: more interleaving in the stream
					std::thread::yield_now();
				}
				errs
			})
		})
		.collect();
	barrier.wait();
	for p in &pings {
		let _ = b_sock.write_all(p);
	}
	// logical wait: until the announced number of bytes has arrived (generous deadline), then a short look for more
	let mut stream = vec![0u8; total];
	let _ = b_sock.set_read_timeout(Some(Duration::from_secs(120)));
	let mut got = 0;
	while got < total {
		match b_sock.read(&mut stream[got..]) {
			Ok(0) | Err(_) => break,
			Ok(n) => got += n,
		}
	}
	stream.truncate(got);
	let mut trailing = 0;
	let _ = b_sock.set_read_timeout(Some(Duration::from_millis(400)));
	let mut extra = [0u8; 4096];
	if got == total {
		if let Ok(n) = b_sock.read(&mut extra) {
			trailing = n;
			stream.extend_from_slice(&extra[..n]);
		}
	}
	let send_errs = handles.into_iter().map(|h| h.join().unwrap_or(1)).sum();
	stop.stop();
	let _ = b_sock.shutdown(Shutdown::Both);
	Some(CsRes { ver, lists, stream, send_errs, trailing })
}

/// the harness' own oracle: whole frames, an interleaving of the lists
fn is_merge(lists: &[Vec<Vec<u8>>], stream: &[u8]) -> Result<usize, String> {
	let mut frames = vec![];
	let mut p = 0;
	while p < stream.len() {
		if stream.len() - p < 11 {
			return Err(format!("{} stray bytes at offset {}", stream.len() - p, p));
		}
		let mut l = [0u8; 8];
		l.copy_from_slice(&stream[p + 3..p + 11]);
		let len = u64::from_be_bytes(l) as usize;
		if len > stream.len() - p - 11 {
			return Err(format!("frame at offset {} announces {} bytes, {} left", p, len, stream.len() - p - 11));
		}
		frames.push(&stream[p..p + 11 + len]);
		p += 11 + len;
	}
	let mut next = vec![0usize; lists.len()];
	let (mut switches, mut last) = (0usize, usize::MAX);
	for (n, f) in frames.iter().enumerate() {
		let mut owner = None;
		for (i, l) in lists.iter().enumerate() {
			if next[i] < l.len() && &l[next[i]][..] == *f {
				owner = Some(i);
				break;
			}
		}
		match owner {
			Some(i) => {
				next[i] += 1;
				if last != usize::MAX && last != i {
					switches += 1;
				}
				last = i;
			}
			None => return Err(format!("frame {} of the stream ({} bytes, type {}) is not the next frame of any sender", n, f.len(), f[2])),
		}
	}
	for (i, l) in lists.iter().enumerate() {
		if next[i] != l.len() {
			return Err(format!("sender {}: {} of {} frames arrived", i, next[i], l.len()));
		}
	}
	Ok(switches)
}

pub fn concurrent_senders(cx: &mut Ctx) {
	// (senders' list sizes, pings): the total stays below SEND_CHANNEL_CAP = 100, so nothing may be dropped
	let mut plans: Vec<(u32, Vec<usize>, usize)> = vec![
		(1000, vec![20, 20], 5),
		(2, vec![12, 12, 12], 6),
		(1, vec![8, 8, 8, 8, 8], 4),
		(3, vec![5; 8], 5),
	];
	if cx.thorough {
		plans.extend_from_slice(&[(1000, vec![45, 45], 8), (1000, vec![6; 15], 8), (2, vec![1; 60], 10), (3, vec![30, 1, 30, 1, 30], 6), (1, vec![90], 9), (1000, vec![3; 30], 9)]);
	}
	let handles: Vec<_> = plans
		.iter()
		.map(|(ver, sizes, pings)| {
			let (ver, sizes, pings, seed) = (*ver, sizes.clone(), *pings, cx.rng.next());
			std::thread::spawn(move || {
				global::set_local_chain_type(ChainTypes::AutomatedTesting);
				run_csend(ver, seed, &sizes, pings)
			})
		})
		.collect();
	for (h, (_, sizes, pings)) in handles.into_iter().zip(plans.iter()) {
		match h.join().ok().flatten() {
			None => {
				cx.fails += 1;
				cx.out.raw("#ORACLE-FAIL C19 csend: the connection could not be set up");
			}
			Some(r) => {
				let merged = is_merge(&r.lists, &r.stream);
				if let Ok(sw) = &merged {
					cx.stat(&format!("csend: stream of {} senders switches sender {} times", r.lists.len(), sw));
				}
				let verdict = match merged {
					Ok(_) if r.send_errs == 0 && r.trailing == 0 => "merge".to_string(),
					Ok(_) => format!("merge-but:send-errors:{}:trailing:{}", r.send_errs, r.trailing),
					Err(e) => format!("broken:{}", e.replace(' ', "_")),
				};
				if verdict != "merge" {
					cx.fails += 1;
					cx.out.raw(&format!(
						"#ORACLE-FAIL C19 concurrent senders through one ConnHandle: {} senders with {:?} messages + {} Pongs of the reader thread at version {}: the stream received is not an interleaving of whole frames: {}",
						sizes.len(), sizes, pings, r.ver, verdict
					));
				}
				cx.stat(&format!("csend: {} senders, {} messages + {} pongs", sizes.len(), sizes.iter().sum::<usize>(), pings));
				// how interleaved was it? (number of switches between senders in the stream)
				let lists_txt: Vec<String> = r.lists.iter().map(|l| hex_list(l)).collect();
				cx.out.line(&format!("codec csend {} {} {} {}", r.ver, r.lists.len(), lists_txt.join(" "), hex(&r.stream)), &verdict);
			}
		}
	}
}

// ---------------------------------------------------------------------------------------------------
// the handshake under its read timeouts

fn sched_txt(s: &[(u64, Vec<u8>)]) -> String {
	format!("[{}]", s.iter().map(|(d, f)| format!("{}:{}", d, hex(f))).collect::<Vec<_>>().join(","))
}

fn hs_err(e: &grin_p2p::Error) -> String {
	match e {
		grin_p2p::Error::Connection(io) if io.kind() == std::io::ErrorKind::WouldBlock || io.kind() == std::io::ErrorKind::TimedOut => "Timeout".to_string(),
		e => err_name(e),
	}
}

struct HsT {
	line: String,
	res: String,
	fails: Vec<String>,
	stat: String,
}

/// the peer writes `sched` (real pauses) to the node's `Handshake::accept`
fn hs_accept_timed(g: Hash, name: &str, sched: Vec<(u64, Vec<u8>)>, expect_timeout: bool) -> Option<HsT> {
	let listener = TcpListener::bind("127.0.0.1:0").ok()?;
	let mut client = TcpStream::connect(listener.local_addr().ok()?).ok()?;
	client.set_nodelay(true).ok()?;
	let (mut server, _) = listener.accept().ok()?;
	let t0 = Instant::now();
	let node = std::thread::spawn(move || {
		global::set_local_chain_type(ChainTypes::AutomatedTesting);
		let hs = Handshake::new(g, P2PConfig::default());
		let r = hs.accept(Capabilities::default(), Difficulty::from_num(5), &mut server).map(|i| i.version.value()).map_err(|e| hs_err(&e));
		(r, t0.elapsed())
	});
	for (d, f) in &sched {
		std::thread::sleep(Duration::from_millis(*d));
		let _ = client.write_all(f);
	}
	// what the node wrote back: a Shake frame or nothing
	let _ = client.set_read_timeout(Some(Duration::from_secs(60)));
	let mut head = [0u8; 11];
	let shake = client.read_exact(&mut head).is_ok() && head[2] == Type::Shake as u8;
	let (r, el) = node.join().ok()?;
	let mut fails = vec![];
	let res = match &r {
		Ok(v) => format!("ok {}", v),
		Err(e) => format!("err {}", e),
	};
	if expect_timeout {
		if res != "err Timeout" {
			fails.push(format!("accept ({}): the Hand stalled beyond HAND_READ_TIMEOUT but accept returned {}", name, res));
		}
		// a timeout may not fire early (one-sided: the kernel timer and our sleeps only ever run late)
		if el < Duration::from_millis(9_900) {
			fails.push(format!("accept ({}): gave up after {} ms, before HAND_READ_TIMEOUT (10 s)", name, el.as_millis()));
		}
		if shake {
			fails.push(format!("accept ({}): a Shake was written although no Hand was read", name));
		}
	} else if r.is_err() || !shake {
		fails.push(format!("accept ({}): every pause was well below HAND_READ_TIMEOUT but accept returned {} (Shake written: {})", name, res, shake));
	}
	Some(HsT { line: format!("codec hstime accept {} {}", hex(g.as_bytes()), sched_txt(&sched)), res, fails, stat: format!("hstime: accept, {}", name) })
}

/// the node's `Handshake::initiate` against a listener that answers with `sched` after reading the Hand
fn hs_initiate_timed(g: Hash, name: &str, sched: Vec<(u64, Vec<u8>)>, expect_timeout: bool) -> Option<HsT> {
	let listener = TcpListener::bind("127.0.0.1:0").ok()?;
	let laddr = listener.local_addr().ok()?;
	let t0 = Instant::now();
	let node = std::thread::spawn(move || {
		global::set_local_chain_type(ChainTypes::AutomatedTesting);
		let hs = Handshake::new(g, P2PConfig::default());
		let mut conn = match TcpStream::connect(laddr) {
			Ok(c) => c,
			Err(_) => return (Err("connect".to_string()), t0.elapsed()),
		};
		let r = hs
			.initiate(Capabilities::default(), Difficulty::from_num(5), PeerAddr("127.0.0.1:3414".parse().unwrap()), &mut conn)
			.map(|i| i.version.value())
			.map_err(|e| hs_err(&e));
		(r, t0.elapsed())
	});
	let (mut remote, _) = listener.accept().ok()?;
	remote.set_nodelay(true).ok()?;
	// read the Hand completely first (logical), then answer on schedule
	let _ = remote.set_read_timeout(Some(Duration::from_secs(60)));
	let mut head = [0u8; 11];
	remote.read_exact(&mut head).ok()?;
	let mut l = [0u8; 8];
	l.copy_from_slice(&head[3..11]);
	let mut body = vec![0u8; (u64::from_be_bytes(l) as usize).min(1 << 16)];
	remote.read_exact(&mut body).ok()?;
	for (d, f) in &sched {
		std::thread::sleep(Duration::from_millis(*d));
		let _ = remote.write_all(f);
	}
	let (r, el) = node.join().ok()?;
	let mut fails = vec![];
	let res = match &r {
		Ok(v) => format!("ok {}", v),
		Err(e) => format!("err {}", e),
	};
	if expect_timeout {
		if res != "err Timeout" {
			fails.push(format!("initiate ({}): the Shake stalled beyond SHAKE_READ_TIMEOUT but initiate returned {}", name, res));
		}
		if el < Duration::from_millis(9_900) {
			fails.push(format!("initiate ({}): gave up after {} ms, before SHAKE_READ_TIMEOUT (10 s)", name, el.as_millis()));
		}
	} else if r.is_err() {
		fails.push(format!("initiate ({}): every pause was well below SHAKE_READ_TIMEOUT but initiate returned {}", name, res));
	}
	Some(HsT { line: format!("codec hstime initiate {} {}", hex(g.as_bytes()), sched_txt(&sched)), res, fails, stat: format!("hstime: initiate, {}", name) })
}

pub fn handshake_timeouts(cx: &mut Ctx) {
	let g = Hash::from_vec(&[7u8; 32]);
	let hand = |rng: &mut Rng, v: u32| {
		wire(&Msg::new(
			Type::Hand,
			Hand {
				version: ProtocolVersion(v),
				capabilities: Capabilities::default(),
				nonce: rng.next(),
				genesis: g,
				total_difficulty: Difficulty::from_num(5),
				sender_addr: PeerAddr("127.0.0.1:3414".parse().unwrap()),
				receiver_addr: PeerAddr("127.0.0.1:3415".parse().unwrap()),
				user_agent: "verif/hstime".to_string(),
			},
			ProtocolVersion(1),
		)
		.unwrap())
	};
	let shake = |v: u32| {
		wire(&Msg::new(Type::Shake, Shake { version: ProtocolVersion(v), capabilities: Capabilities::default(), genesis: g, total_difficulty: Difficulty::from_num(5), user_agent: "verif/hstime".to_string() }, ProtocolVersion(1)).unwrap())
	};
	const BELOW: u64 = 4_000; // well below the 10 s timeout: CPU load can stretch a pause, never by seconds
	const ABOVE: u64 = 11_500;
	type Job = Box<dyn FnOnce() -> Option<HsT> + Send>;
	let mut jobs: Vec<Job> = vec![];
	let cut = |f: &Vec<u8>, at: usize, d1: u64, d2: u64| vec![(d1, f[..at].to_vec()), (d2, f[at..].to_vec())];
	let (h1, h2, h3, h4, h5) = (hand(&mut cx.rng, 1000), hand(&mut cx.rng, 2), hand(&mut cx.rng, 1000), hand(&mut cx.rng, 3), hand(&mut cx.rng, 1000));
	{
		let s = cut(&h1, 5, BELOW, BELOW);
		jobs.push(Box::new(move || hs_accept_timed(g, "4 s before the Hand and 4 s inside its frame header", s, false)));
		let n = h2.len();
		let s = vec![(0, h2[..11].to_vec()), (BELOW, h2[11..n - 1].to_vec()), (BELOW, h2[n - 1..].to_vec())];
		jobs.push(Box::new(move || hs_accept_timed(g, "4 s after the frame header and 4 s before the last body byte", s, false)));
		let s = vec![(ABOVE, h3)];
		jobs.push(Box::new(move || hs_accept_timed(g, "peer silent for 11.5 s", s, true)));
		let s = cut(&h4, 30, 0, ABOVE);
		jobs.push(Box::new(move || hs_accept_timed(g, "11.5 s inside the Hand body", s, true)));
		let s = cut(&h5, 7, 0, ABOVE);
		jobs.push(Box::new(move || hs_accept_timed(g, "11.5 s inside the frame header", s, true)));
	}
	{
		let (s1, s2, s3) = (shake(1000), shake(2), shake(1000));
		let s = cut(&s1, 3, BELOW, BELOW);
		jobs.push(Box::new(move || hs_initiate_timed(g, "Shake 4 s late, 4 s inside its frame header", s, false)));
		let s = vec![(ABOVE, s2)];
		jobs.push(Box::new(move || hs_initiate_timed(g, "Shake 11.5 s late", s, true)));
		let s = cut(&s3, 40, 0, ABOVE);
		jobs.push(Box::new(move || hs_initiate_timed(g, "11.5 s inside the Shake body", s, true)));
	}
	let handles: Vec<_> = jobs.into_iter().map(|j| std::thread::spawn(j)).collect();
	for h in handles {
		match h.join().ok().flatten() {
			None => {
				cx.fails += 1;
				cx.out.raw("#ORACLE-FAIL C19 hstime: the delivery could not be set up");
			}
			Some(r) => {
				for f in &r.fails {
					cx.fails += 1;
					cx.out.raw(&format!("#ORACLE-FAIL C19 handshake read timeout: {}", f));
				}
				cx.stat(&r.stat);
				cx.out.line(&r.line, &r.res);
			}
		}
	}
}

// ---------------------------------------------------------------------------------------------------
// increment 2: several threads calling `Peer::send_*` on ONE real Peer (Mutex<ConnHandle>, TrackingAdapter
// de-dup), and the send channel overflowing under concurrent senders while the writer is stalled

fn mk_adapter(work: &std::path::Path, rng: &mut Rng) -> Arc<glue::GlueAdapter> {
	Arc::new(glue::GlueAdapter {
		log: Mutex::new(vec![]),
		banned: std::sync::atomic::AtomicBool::new(false),
		ready: std::sync::atomic::AtomicBool::new(false),
		td: 1_000_000 + rng.below(1 << 30),
		height: 1 + rng.below(1 << 20),
		block: Mutex::new(None),
		tx: Mutex::new(None),
		peers: vec![],
		work: work.to_path_buf(),
		arch_hdr: Mutex::new(None),
		arch_data: Mutex::new(None),
		segs: Mutex::new(None),
		fail: Mutex::new(None),
		tmp_exists: std::sync::atomic::AtomicBool::new(false),
	})
}

/// a real `Peer::accept` behind a real Hand / Shake; the raw socket of the remote
fn mk_peer(remote_ver: u32, ad: Arc<glue::GlueAdapter>, nonce: u64) -> Option<(Peer, TcpStream)> {
	mk_peer_port(remote_ver, ad, nonce, 3414)
}

fn mk_peer_port(remote_ver: u32, ad: Arc<glue::GlueAdapter>, nonce: u64, port: u16) -> Option<(Peer, TcpStream)> {
	let g = Hash::from_vec(&[7u8; 32]);
	let listener = TcpListener::bind("127.0.0.1:0").ok()?;
	let laddr = listener.local_addr().ok()?;
	let mut client = TcpStream::connect(laddr).ok()?;
	client.set_nodelay(true).ok()?;
	let (server, _) = listener.accept().ok()?;
	let t = std::thread::spawn(move || {
		global::set_local_chain_type(ChainTypes::AutomatedTesting);
		let hs = Handshake::new(g, P2PConfig::default());
		Peer::accept(server, Capabilities::default(), Difficulty::from_num(9), &hs, ad).ok()
	});
	let hand = Hand {
		version: ProtocolVersion(remote_ver),
		capabilities: Capabilities::default(),
		nonce,
		genesis: g,
		total_difficulty: Difficulty::from_num(5),
		sender_addr: PeerAddr(format!("127.0.0.1:{}", port).parse().unwrap()),
		receiver_addr: PeerAddr(laddr),
		user_agent: "verif/psend".to_string(),
	};
	client.write_all(&wire(&Msg::new(Type::Hand, hand, ProtocolVersion(1)).unwrap())).ok()?;
	// the Shake
	let _ = client.set_read_timeout(Some(Duration::from_secs(30)));
	let mut head = [0u8; 11];
	client.read_exact(&mut head).ok()?;
	let mut l = [0u8; 8];
	l.copy_from_slice(&head[3..11]);
	let mut body = vec![0u8; (u64::from_be_bytes(l) as usize).min(1 << 16)];
	client.read_exact(&mut body).ok()?;
	let peer = t.join().ok()??;
	Some((peer, client))
}

enum PSend {
	Ping(u64, u64),
	Kernel(Hash),
	HeaderReq(Vec<Hash>),
	PeerReq(u32),
	TxReq(Hash),
}

struct PsRes {
	ver: u32,
	lists: Vec<Vec<Vec<u8>>>,
	stream: Vec<u8>,
	problems: Vec<String>,
	suppressed: usize,
}

fn run_psend(remote_ver: u32, seed: u64, work: std::path::PathBuf, k: usize, per: usize) -> Option<PsRes> {
	let mut rng = Rng::new(seed);
	let ver = remote_ver.min(1000);
	let ad = mk_adapter(&work, &mut rng);
	let (peer, mut sock) = mk_peer(remote_ver, ad.clone(), rng.next())?;
	let peer = Arc::new(peer);
	// hashes the remote has shown us: remembered by the TrackingAdapter, never sent back
	let known: Vec<Hash> = (0..6).map(|_| hash32(&mut rng)).collect();
	for h in &known {
		sock.write_all(&frame_bytes(Type::TransactionKernel, h, ver)).ok()?;
	}
	// logical wait: the adapter has seen all of them
	let deadline = Instant::now() + Duration::from_secs(60);
	while ad.log.lock().unwrap().len() < known.len() && Instant::now() < deadline {
		std::thread::sleep(Duration::from_millis(5));
	}
	let mut plans: Vec<Vec<PSend>> = vec![];
	let mut lists: Vec<Vec<Vec<u8>>> = vec![];
	let mut want_ret: Vec<Vec<Option<bool>>> = vec![];
	let mut suppressed = 0;
	for i in 0..k {
		let (mut pl, mut fl, mut wr) = (vec![], vec![], vec![]);
		for j in 0..per {
			match rng.below(6) {
				0 => {
					let (td, h) = (rng.below(1 << 50), (i * 1000 + j) as u64);
					fl.push(frame_bytes(Type::Ping, &Ping { total_difficulty: Difficulty::from_num(td), height: h }, ver));
					pl.push(PSend::Ping(td, h));
					wr.push(None);
				}
				1 => {
					// a hash the peer showed us: every thread that tries must be told `false`, nothing goes out
					let h = *rng.pick(&known);
					pl.push(PSend::Kernel(h));
					wr.push(Some(false));
					suppressed += 1;
				}
				2 => {
					let h = hash32(&mut rng);
					fl.push(frame_bytes(Type::TransactionKernel, &h, ver));
					pl.push(PSend::Kernel(h));
					wr.push(Some(true));
				}
				3 => {
					let hs: Vec<Hash> = (0..1 + rng.below(20)).map(|_| hash32(&mut rng)).collect();
					fl.push(frame_bytes(Type::GetHeaders, &Locator { hashes: hs.clone() }, ver));
					pl.push(PSend::HeaderReq(hs));
					wr.push(None);
				}
				4 => {
					let c = rng.below(128) as u32;
					fl.push(frame_bytes(Type::GetPeerAddrs, &GetPeerAddrs { capabilities: Capabilities::from_bits_truncate(c) }, ver));
					pl.push(PSend::PeerReq(c));
					wr.push(None);
				}
				_ => {
					let h = hash32(&mut rng);
					fl.push(frame_bytes(Type::GetTransaction, &h, ver));
					pl.push(PSend::TxReq(h));
					wr.push(None);
				}
			}
		}
		plans.push(pl);
		lists.push(fl);
		want_ret.push(wr);
	}
	// Pings of the remote: the Pongs travel through the same channel
	let n_pings = 4;
	let mut pongs = vec![];
	let mut pings = vec![];
	for j in 0..n_pings {
		pings.push(frame_bytes(Type::Ping, &Ping { total_difficulty: Difficulty::from_num(rng.below(1 << 50)), height: 900_000 + j }, ver));
		pongs.push(frame_bytes(Type::Pong, &Pong { total_difficulty: Difficulty::from_num(ad.td), height: ad.height }, ver));
	}
	lists.push(pongs);
	let total: usize = lists.iter().map(|l| l.iter().map(|f| f.len()).sum::<usize>()).sum();
	let barrier = Arc::new(Barrier::new(k + 1));
	let handles: Vec<_> = plans
		.into_iter()
		.zip(want_ret.into_iter())
		.enumerate()
		.map(|(i, (pl, wr))| {
			let (p, b) = (peer.clone(), barrier.clone());
			std::thread::spawn(move || {
				b.wait();
				let mut probs = vec![];
				for (j, (s, w)) in pl.into_iter().zip(wr.into_iter()).enumerate() {
					let r: Result<Option<bool>, String> = match s {
						PSend::Ping(td, h) => p.send_ping(Difficulty::from_num(td), h).map(|_| None).map_err(|e| err_name(&e)),
						PSend::Kernel(h) => p.send_tx_kernel_hash(h).map(Some).map_err(|e| err_name(&e)),
						PSend::HeaderReq(hs) => p.send_header_request(hs).map(|_| None).map_err(|e| err_name(&e)),
						PSend::PeerReq(c) => p.send_peer_request(Capabilities::from_bits_truncate(c)).map(|_| None).map_err(|e| err_name(&e)),
						PSend::TxReq(h) => p.send_tx_request(h).map(|_| None).map_err(|e| err_name(&e)),
					};
					if r != Ok(w) {
						probs.push(format!("thread {} call {}: returned {:?}, expected {:?}", i, j, r, w));
					}
				}
				probs
			})
		})
		.collect();
	barrier.wait();
	for p in &pings {
		let _ = sock.write_all(p);
	}
	let mut stream = vec![0u8; total];
	let _ = sock.set_read_timeout(Some(Duration::from_secs(120)));
	let mut got = 0;
	while got < total {
		match sock.read(&mut stream[got..]) {
			Ok(0) | Err(_) => break,
			Ok(n) => got += n,
		}
	}
	stream.truncate(got);
	let mut problems: Vec<String> = vec![];
	let _ = sock.set_read_timeout(Some(Duration::from_millis(400)));
	let mut extra = [0u8; 4096];
	if got == total {
		if let Ok(n) = sock.read(&mut extra) {
			if n > 0 {
				problems.push(format!("{} bytes behind the expected stream", n));
				stream.extend_from_slice(&extra[..n]);
			}
		}
	}
	for h in handles {
		problems.extend(h.join().unwrap_or_else(|_| vec!["sender thread panicked".to_string()]));
	}
	if !peer.is_connected() {
		problems.push("Peer::is_connected() is false after the conversation".to_string());
	}
	peer.stop();
	let _ = sock.shutdown(Shutdown::Both);
	Some(PsRes { ver, lists, stream, problems, suppressed })
}

pub fn peer_concurrent(cx: &mut Ctx, work: &std::path::Path) {
	let mut plans: Vec<(u32, usize, usize)> = vec![(1000, 3, 12), (2, 6, 6), (1, 2, 20)];
	if cx.thorough {
		plans.extend_from_slice(&[(3, 10, 8), (1000, 16, 5), (1001, 4, 22), (2, 30, 3)]);
	}
	let handles: Vec<_> = plans
		.iter()
		.enumerate()
		.map(|(i, (rv, k, per))| {
			let (rv, k, per, seed, w) = (*rv, *k, *per, cx.rng.next(), work.join(format!("psend-{}", i)));
			std::thread::spawn(move || {
				global::set_local_chain_type(ChainTypes::AutomatedTesting);
				let _ = std::fs::create_dir_all(&w);
				run_psend(rv, seed, w, k, per)
			})
		})
		.collect();
	for (h, (rv, k, per)) in handles.into_iter().zip(plans.iter()) {
		match h.join().ok().flatten() {
			None => {
				cx.fails += 1;
				cx.out.raw("#ORACLE-FAIL C19 psend: the Peer could not be set up");
			}
			Some(r) => {
				let merged = is_merge(&r.lists, &r.stream);
				if let Ok(sw) = &merged {
					cx.stat(&format!("psend: {} threads on one Peer, stream switches sender {} times, {} suppressed sends", k, sw, r.suppressed));
				}
				let verdict = match merged {
					Ok(_) if r.problems.is_empty() => "merge".to_string(),
					Ok(_) => format!("merge-but:{}", r.problems.join("/").replace(' ', "_")),
					Err(e) => format!("broken:{}", e.replace(' ', "_")),
				};
				if verdict != "merge" {
					cx.fails += 1;
					cx.out.raw(&format!(
						"#ORACLE-FAIL C19 concurrent Peer::send_* on one Peer ({} threads x {} calls, remote version {}): {}",
						k, per, rv, verdict
					));
				}
				let lists_txt: Vec<String> = r.lists.iter().map(|l| hex_list(l)).collect();
				cx.out.line(&format!("codec csend {} {} {} {}", r.ver, r.lists.len(), lists_txt.join(" "), hex(&r.stream)), &verdict);
			}
		}
	}
}

struct OvRes {
	ver: u32,
	lists: Vec<Vec<Vec<u8>>>,
	stream: Vec<u8>,
	send_errs: usize,
}

/// the writer thread is parked on the tracker lock (a logical barrier, as in `chan fill`); k threads offer more
/// than SEND_CHANNEL_CAP messages through `ConnHandle::send`; then the lock is released and the stream read
fn run_overflow(ver: u32, seed: u64, k: usize, per: usize) -> Option<OvRes> {
	let mut rng = Rng::new(seed);
	let listener = TcpListener::bind("127.0.0.1:0").ok()?;
	let a_sock = TcpStream::connect(listener.local_addr().ok()?).ok()?;
	let (mut b_sock, _) = listener.accept().ok()?;
	let tr = Arc::new(Tracker::new());
	let seen = Arc::new(Mutex::new(ext::Seen2::default()));
	let (ha, stop) = listen(a_sock, ProtocolVersion(ver), tr.clone(), ext::Recorder2 { ver, work: std::path::PathBuf::new(), id: 0, scripted: false, seen }).ok()?;
	let mut lists: Vec<Vec<Vec<u8>>> = vec![];
	let mut msgs: Vec<Vec<Msg>> = vec![];
	for i in 0..k {
		let (mut fl, mut ml) = (vec![], vec![]);
		for j in 0..per {
			let (t, body): (Type, Vec<u8>) = match rng.below(3) {
				0 => (Type::Ping, sv(&Ping { total_difficulty: Difficulty::from_num(rng.below(1 << 50)), height: (i * 1000 + j) as u64 }, ver)),
				1 => (Type::GetHeaders, sv(&Locator { hashes: (0..1 + rng.below(20)).map(|_| hash32(&mut rng)).collect() }, ver)),
				_ => (Type::GetBlock, sv(&hash32(&mut rng), ver)),
			};
			let m = Msg::new(t, ext::RawBody(body), ProtocolVersion(ver)).ok()?;
			fl.push(wire(&m));
			ml.push(m);
		}
		lists.push(fl);
		msgs.push(ml);
	}
	let send_errs;
	{
		let guard = tr.sent_bytes.write();
		let barrier = Arc::new(Barrier::new(k));
		let handles: Vec<_> = msgs
			.into_iter()
			.map(|ml| {
				let (h, b) = (ha.clone(), barrier.clone());
				std::thread::spawn(move || {
					b.wait();
					ml.into_iter().filter(|_| true).map(|m| if h.send(m).is_err() { 1 } else { 0 }).sum::<usize>()
				})
			})
			.collect();
		send_errs = handles.into_iter().map(|h| h.join().unwrap_or(1)).sum();
		// every send has returned: whatever was not accepted has been dropped. Only now may the writer run.
		drop(guard);
	}
	// the stream: read until it stays quiet (the writer paces 150 ms per message; 2 s of silence = done)
	// logical wait until SEND_CHANNEL_CAP whole frames are there (what the channel held must arrive), then a
	// look for more (the one the parked writer may have had in its hands, or anything that should not come)
	let cap = grin_p2p::SEND_CHANNEL_CAP;
	let whole_frames = |s: &[u8]| {
		let (mut p, mut n) = (0usize, 0usize);
		while s.len() >= p + 11 {
			let mut l = [0u8; 8];
			l.copy_from_slice(&s[p + 3..p + 11]);
			let len = u64::from_be_bytes(l) as usize;
			if s.len() < p + 11 + len {
				break;
			}
			p += 11 + len;
			n += 1;
		}
		n
	};
	let mut stream = vec![];
	let mut buf = [0u8; 8192];
	let deadline = Instant::now() + Duration::from_secs(180);
	loop {
		let enough = whole_frames(&stream) >= cap;
		let _ = b_sock.set_read_timeout(Some(if enough { Duration::from_millis(3_000) } else { Duration::from_secs(60) }));
		match b_sock.read(&mut buf) {
			Ok(0) => break,
			Ok(n) => stream.extend_from_slice(&buf[..n]),
			Err(_) => break,
		}
		if Instant::now() > deadline {
			break;
		}
	}
	stop.stop();
	let _ = b_sock.shutdown(Shutdown::Both);
	Some(OvRes { ver, lists, stream, send_errs })
}

/// whole frames, no foreign frame, per sender a SUBSEQUENCE of its list in order (what `try_send` guarantees under
/// every schedule: once the writer frees a slot a later message of a sender can get in although an earlier one
/// of the same sender was dropped); the number of frames
fn is_sub_merge(lists: &[Vec<Vec<u8>>], stream: &[u8]) -> Result<usize, String> {
	let mut p = 0;
	let mut next = vec![0usize; lists.len()];
	let mut n = 0;
	while p < stream.len() {
		if stream.len() - p < 11 {
			return Err(format!("{} stray bytes at offset {}", stream.len() - p, p));
		}
		let mut l = [0u8; 8];
		l.copy_from_slice(&stream[p + 3..p + 11]);
		let len = u64::from_be_bytes(l) as usize;
		if len > stream.len() - p - 11 {
			return Err(format!("half a frame at offset {}: {} bytes announced, {} there", p, len, stream.len() - p - 11));
		}
		let f = &stream[p..p + 11 + len];
		let mut owner = None;
		for (i, l) in lists.iter().enumerate() {
			if let Some(off) = l[next[i]..].iter().position(|x| &x[..] == f) {
				owner = Some((i, next[i] + off + 1));
				break;
			}
		}
		match owner {
			Some((i, nx)) => next[i] = nx,
			None => return Err(format!("frame {} ({} bytes, type {}) is no LATER frame of any sender (out of order, duplicated or foreign)", n, f.len(), f[2])),
		}
		n += 1;
		p += 11 + len;
	}
	Ok(n)
}

pub fn channel_overflow(cx: &mut Ctx) {
	let cap = grin_p2p::SEND_CHANNEL_CAP;
	let plans: Vec<(u32, usize, usize)> = if cx.thorough { vec![(1000, 4, 40), (2, 8, 25), (1, 2, 101), (3, 30, 5)] } else { vec![(1000, 4, 40)] };
	let handles: Vec<_> = plans
		.iter()
		.map(|(ver, k, per)| {
			let (ver, k, per, seed) = (*ver, *k, *per, cx.rng.next());
			std::thread::spawn(move || {
				global::set_local_chain_type(ChainTypes::AutomatedTesting);
				run_overflow(ver, seed, k, per)
			})
		})
		.collect();
	for (h, (_, k, per)) in handles.into_iter().zip(plans.iter()) {
		match h.join().ok().flatten() {
			None => {
				cx.fails += 1;
				cx.out.raw("#ORACLE-FAIL C19 overflow: the connection could not be set up");
			}
			Some(r) => {
				let verdict = match is_sub_merge(&r.lists, &r.stream) {
					// `cap` in the channel, possibly one more in the hands of the parked writer
					Ok(n) if (n == cap || n == cap + 1) && r.send_errs == 0 => "subsequences".to_string(),
					Ok(n) => format!("subsequences-but:frames:{}:send-errors:{}", n, r.send_errs),
					Err(e) => format!("broken:{}", e.replace(' ', "_")),
				};
				if verdict != "subsequences" {
					cx.fails += 1;
					cx.out.raw(&format!(
						"#ORACLE-FAIL C19 send channel overflowing under {} concurrent senders x {} messages with the writer stalled (SEND_CHANNEL_CAP = {}): {}",
						k, per, cap, verdict
					));
				}
				cx.stat(&format!("overflow: {} senders x {} messages offered to a stalled writer", k, per));
				let lists_txt: Vec<String> = r.lists.iter().map(|l| hex_list(l)).collect();
				cx.out.line(&format!("codec cover {} {} {} {}", r.ver, r.lists.len(), lists_txt.join(" "), hex(&r.stream)), &verdict);
			}
		}
	}
}

// ---------------------------------------------------------------------------------------------------
// increment 2: the handshake WRITE timeouts (HAND_WRITE_TIMEOUT / SHAKE_WRITE_TIMEOUT = 2 s) on the real code:
// the socket's send path is filled up beforehand (non-blocking writes until WouldBlock, repeated until the
// kernel takes nothing more) and the remote never reads, so the write of the Shake / the Hand cannot make
// progress.  One-sided bounds only: the call must fail with a timeout, not before 2 s have passed.

fn fill_send_path(s: &TcpStream) -> usize {
	let _ = s.set_nonblocking(true);
	let chunk = vec![0xEEu8; 1 << 16];
	let mut total = 0usize;
	let mut idle_rounds = 0;
	let mut w = s;
	while idle_rounds < 3 && total < (1 << 28) {
		let mut progressed = false;
		loop {
			match w.write(&chunk) {
				Ok(0) => break,
				Ok(n) => {
					total += n;
					progressed = true;
				}
				Err(_) => break,
			}
		}
		if progressed {
			idle_rounds = 0;
		} else {
			idle_rounds += 1;
		}
		std::thread::sleep(Duration::from_millis(150));
	}
	let _ = s.set_nonblocking(false);
	total
}

struct WtRes {
	dir: &'static str,
	stalled: bool,
	res: String,
	elapsed: Duration,
	filled: usize,
}

fn wt_accept(stalled: bool, nonce: u64) -> Option<WtRes> {
	let g = Hash::from_vec(&[7u8; 32]);
	let listener = TcpListener::bind("127.0.0.1:0").ok()?;
	let laddr = listener.local_addr().ok()?;
	let mut client = TcpStream::connect(laddr).ok()?;
	client.set_nodelay(true).ok()?;
	let (mut server, _) = listener.accept().ok()?;
	let filled = if stalled { fill_send_path(&server) } else { 0 };
	let hand = Hand {
		version: ProtocolVersion(1000),
		capabilities: Capabilities::default(),
		nonce,
		genesis: g,
		total_difficulty: Difficulty::from_num(5),
		sender_addr: PeerAddr("127.0.0.1:3414".parse().unwrap()),
		receiver_addr: PeerAddr(laddr),
		user_agent: "verif/wtime".to_string(),
	};
	client.write_all(&wire(&Msg::new(Type::Hand, hand, ProtocolVersion(1)).unwrap())).ok()?;
	let node = std::thread::spawn(move || {
		global::set_local_chain_type(ChainTypes::AutomatedTesting);
		let hs = Handshake::new(g, P2PConfig::default());
		let t0 = Instant::now();
		let r = hs.accept(Capabilities::default(), Difficulty::from_num(5), &mut server).map(|i| i.version.value()).map_err(|e| hs_err(&e));
		(r, t0.elapsed(), server)
	});
	// the remote does not read while the node is in `accept`
	let (r, elapsed, _server) = node.join().ok()?;
	let res = match r {
		Ok(v) => format!("ok {}", v),
		Err(e) => format!("err {}", e),
	};
	drop(client);
	Some(WtRes { dir: "accept", stalled, res, elapsed, filled })
}

fn wt_initiate(stalled: bool) -> Option<WtRes> {
	let g = Hash::from_vec(&[7u8; 32]);
	let listener = TcpListener::bind("127.0.0.1:0").ok()?;
	let laddr = listener.local_addr().ok()?;
	let node = std::thread::spawn(move || {
		global::set_local_chain_type(ChainTypes::AutomatedTesting);
		let hs = Handshake::new(g, P2PConfig::default());
		let mut conn = TcpStream::connect(laddr).ok()?;
		let filled = if stalled { fill_send_path(&conn) } else { 0 };
		let t0 = Instant::now();
		let r = hs
			.initiate(Capabilities::default(), Difficulty::from_num(5), PeerAddr("127.0.0.1:3414".parse().unwrap()), &mut conn)
			.map(|i| i.version.value())
			.map_err(|e| hs_err(&e));
		Some((r, t0.elapsed(), filled))
	});
	let (mut remote, _) = listener.accept().ok()?;
	if !stalled {
		// an ordinary responder: read the Hand, answer with a Shake
		let _ = remote.set_read_timeout(Some(Duration::from_secs(60)));
		let mut head = [0u8; 11];
		remote.read_exact(&mut head).ok()?;
		let mut l = [0u8; 8];
		l.copy_from_slice(&head[3..11]);
		let mut body = vec![0u8; (u64::from_be_bytes(l) as usize).min(1 << 16)];
		remote.read_exact(&mut body).ok()?;
		let shake = Shake { version: ProtocolVersion(1000), capabilities: Capabilities::default(), genesis: g, total_difficulty: Difficulty::from_num(5), user_agent: "verif/wtime".to_string() };
		let _ = remote.write_all(&wire(&Msg::new(Type::Shake, shake, ProtocolVersion(1)).unwrap()));
	}
	let (r, elapsed, filled) = node.join().ok()??;
	let res = match r {
		Ok(v) => format!("ok {}", v),
		Err(e) => format!("err {}", e),
	};
	drop(remote);
	Some(WtRes { dir: "initiate", stalled, res, elapsed, filled })
}

pub fn write_timeouts(cx: &mut Ctx) {
	let nonces: Vec<u64> = (0..2).map(|_| cx.rng.next()).collect();
	type Job = Box<dyn FnOnce() -> Option<WtRes> + Send>;
	let (n0, n1) = (nonces[0], nonces[1]);
	let jobs: Vec<Job> = vec![
		Box::new(move || wt_accept(true, n0)),
		Box::new(move || wt_accept(false, n1)),
		Box::new(|| wt_initiate(true)),
		Box::new(|| wt_initiate(false)),
	];
	let handles: Vec<_> = jobs.into_iter().map(|j| std::thread::spawn(j)).collect();
	for h in handles {
		match h.join().ok().flatten() {
			None => {
				cx.fails += 1;
				cx.out.raw("#ORACLE-FAIL C19 wtime: the delivery could not be set up");
			}
			Some(r) => {
				if r.stalled && r.res.starts_with("ok") {
					// the kernel found room for the ~100 bytes after all: no stall was provoked, nothing to compare
					cx.stat(&format!("wtime: {} - the send path took the message although {} bytes were queued (no stall provoked)", r.dir, r.filled));
					continue;
				}
				if r.stalled {
					if r.res != "err Timeout" {
						cx.fails += 1;
						cx.out.raw(&format!("#ORACLE-FAIL C19 handshake write timeout: {} with a remote that never reads ({} bytes queued before) returned {}", r.dir, r.filled, r.res));
					}
					if r.elapsed < Duration::from_millis(1_950) {
						cx.fails += 1;
						cx.out.raw(&format!("#ORACLE-FAIL C19 handshake write timeout: {} gave up after {} ms, before the 2 s write timeout", r.dir, r.elapsed.as_millis()));
					}
				} else if !r.res.starts_with("ok") {
					cx.fails += 1;
					cx.out.raw(&format!("#ORACLE-FAIL C19 wtime control: {} against an ordinary remote returned {}", r.dir, r.res));
				}
				cx.stat(&format!("wtime: {} stalled={}", r.dir, r.stalled));
				cx.out.line(&format!("codec wtime {} {}", r.dir, if r.stalled { 1 } else { 0 }), &r.res);
			}
		}
	}
}


// ---------------------------------------------------------------------------------------------------
// increment 3: above one connection - Peers::broadcast over 0..N real Peers, ban / unban on a real PeerStore,
// Peer::stop / wait racing senders, stop with a frame in flight, is_connected after the reader gave up

/// one whole frame from a raw socket within `ms` (None: nothing / closed)
fn read_one(s: &mut TcpStream, ms: u64) -> Option<Vec<u8>> {
	let _ = s.set_read_timeout(Some(Duration::from_millis(ms)));
	let mut head = [0u8; 11];
	s.read_exact(&mut head).ok()?;
	let mut l = [0u8; 8];
	l.copy_from_slice(&head[3..11]);
	let mut body = vec![0u8; (u64::from_be_bytes(l) as usize).min(1 << 20)];
	let _ = s.set_read_timeout(Some(Duration::from_secs(30)));
	s.read_exact(&mut body).ok()?;
	let mut v = head.to_vec();
	v.extend_from_slice(&body);
	Some(v)
}

fn wait_log(ad: &glue::GlueAdapter, n: usize) {
	let deadline = Instant::now() + Duration::from_secs(60);
	while ad.log.lock().unwrap().len() < n && Instant::now() < deadline {
		std::thread::sleep(Duration::from_millis(5));
	}
}

pub fn peers_level(cx: &mut Ctx, work: &std::path::Path) {
	use grin_p2p::store::PeerStore;
	use grin_p2p::Peers;
	let ver = 1000u32;
	// ---- broadcast over n connected peers; per peer: s = gets it, x = showed it to us before (suppressed), f = its connection is dead
	let plans: Vec<&str> = if cx.thorough { vec!["", "s", "x", "f", "sx", "sxf", "fsxs", "xxss", "ffs", "sssss"] } else { vec!["", "s", "sxf", "fsxs", "xx"] };
	while cx.pool.len() < plans.len() {
		let h = gen_header(&mut cx.rng);
		cx.pool.push(h);
	}
	for (pi, plan) in plans.iter().enumerate() {
		let dir = work.join(format!("peers-{}", pi));
		let _ = std::fs::create_dir_all(&dir);
		let ad = mk_adapter(&dir, &mut cx.rng);
		let store = match PeerStore::new(dir.to_str().unwrap()) {
			Ok(s) => s,
			Err(_) => {
				cx.fails += 1;
				cx.out.raw("#ORACLE-FAIL C19 peers: PeerStore::new failed");
				continue;
			}
		};
		let peers = Peers::new(store, ad.clone(), P2PConfig::default());
		let header = cx.pool[pi].clone();
		let mut socks: Vec<TcpStream> = vec![];
		let mut ok = true;
		for (i, c) in plan.chars().enumerate() {
			match mk_peer_port(ver, ad.clone(), cx.rng.next(), 4000 + i as u16) {
				Some((p, mut sock)) => {
					let p = Arc::new(p);
					if c == 'x' {
						// this peer is the source: it shows us the header first
						let before = ad.log.lock().unwrap().len();
						let _ = sock.write_all(&frame_bytes(Type::Header, &header, ver));
						wait_log(&ad, before + 1);
					}
					if c == 'f' {
						// a dead connection: both threads gone, the send channel disconnected
						p.stop();
						p.wait();
					}
					if peers.add_connected(p).is_err() {
						ok = false;
					}
					socks.push(sock);
				}
				None => ok = false,
			}
		}
		if !ok {
			cx.fails += 1;
			cx.out.raw("#ORACLE-FAIL C19 peers: the peers could not be set up");
			continue;
		}
		let before = peers.iter().count();
		peers.broadcast_header(&header);
		let want = frame_bytes(Type::Header, &header, ver);
		let got: String = plan
			.chars()
			.zip(socks.iter_mut())
			.map(|(c, s)| match read_one(s, if c == 's' { 30_000 } else { 400 }) {
				Some(f) if f == want => '1',
				Some(_) => '?',
				None => '0',
			})
			.collect();
		let after = peers.iter().count();
		cx.stat(&format!("peers: broadcast over {} connected peers", plan.len()));
		cx.out.line(&format!("codec bcast {}", if plan.is_empty() { "-" } else { plan }), &format!("before:{};received:{};after:{}", before, if got.is_empty() { "-".to_string() } else { got }, after));
		peers.stop();
	}

	// ---- ban / unban / is_banned on a real PeerStore, one connected peer, one address only in the store, one unknown
	{
		let dir = work.join("peers-ban");
		let _ = std::fs::create_dir_all(&dir);
		let ad = mk_adapter(&dir, &mut cx.rng);
		if let (Ok(store), Some((p, mut sock))) = (PeerStore::new(dir.to_str().unwrap()), mk_peer_port(ver, ad.clone(), cx.rng.next(), 4100)) {
			let peers = Peers::new(store, ad.clone(), P2PConfig::default());
			let p = Arc::new(p);
			let a_conn = p.info.addr;
			let _ = peers.add_connected(p.clone());
			let a_store = PeerAddr("10.1.2.3:3414".parse().unwrap());
			let _ = peers.add_banned(a_store, ReasonForBan::BadHandshake);
			let _ = peers.unban_peer(a_store);
			let a_unknown = PeerAddr("10.9.9.9:3414".parse().unwrap());
			let r = |x: Result<(), grin_p2p::Error>| match x {
				Ok(()) => "ok".to_string(),
				Err(grin_p2p::Error::PeerNotFound) => "PeerNotFound".to_string(),
				Err(grin_p2p::Error::PeerNotBanned) => "PeerNotBanned".to_string(),
				Err(grin_p2p::Error::Store(_)) => "StoreNotFound".to_string(),
				Err(e) => err_name(&e),
			};
			let b = |x: bool| if x { "1" } else { "0" };
			let mut res: Vec<String> = vec![];
			// the connected peer
			res.push(b(peers.is_banned(a_conn)).into());
			res.push(r(peers.unban_peer(a_conn)));
			res.push(r(peers.ban_peer(a_conn, ReasonForBan::BadBlock)));
			let reason = read_one(&mut sock, 30_000);
			res.push(format!("frame:{}", reason.map(|f| f[2].to_string()).unwrap_or_else(|| "-".into())));
			res.push(b(peers.is_banned(a_conn)).into());
			res.push(format!("map:{}", peers.iter().count()));
			res.push(format!("peerbanned:{}", b(p.is_banned())));
			res.push(r(peers.unban_peer(a_conn)));
			res.push(b(peers.is_banned(a_conn)).into());
			res.push(r(peers.unban_peer(a_conn)));
			// the address we only know from the store: banned in the store although the call reports PeerNotFound
			res.push(r(peers.ban_peer(a_store, ReasonForBan::ManualBan)));
			res.push(b(peers.is_banned(a_store)).into());
			// an address nobody knows
			res.push(r(peers.ban_peer(a_unknown, ReasonForBan::ManualBan)));
			res.push(b(peers.is_banned(a_unknown)).into());
			res.push(r(peers.unban_peer(a_unknown)));
			cx.stat("peers: ban / unban sequence on a real PeerStore");
			cx.out.line("codec pstore seq", &res.join(";"));
			peers.stop();
		} else {
			cx.fails += 1;
			cx.out.raw("#ORACLE-FAIL C19 peers: ban sequence could not be set up");
		}
	}

	// ---- Peer::stop / wait racing senders: everything returns, nobody hangs or panics
	{
		let dir = work.join("peers-race");
		let _ = std::fs::create_dir_all(&dir);
		let ad = mk_adapter(&dir, &mut cx.rng);
		if let Some((p, sock)) = mk_peer_port(ver, ad, cx.rng.next(), 4200) {
			let p = Arc::new(p);
			let k = 6;
			let barrier = Arc::new(Barrier::new(k + 1));
			let hs: Vec<_> = (0..k)
				.map(|i| {
					let (p, b) = (p.clone(), barrier.clone());
					std::thread::spawn(move || {
						b.wait();
						let (mut okc, mut sendc, mut other) = (0u32, 0u32, 0u32);
						for j in 0..400u64 {
							match p.send_ping(Difficulty::from_num(1 + i as u64), j) {
								Ok(()) => okc += 1,
								Err(grin_p2p::Error::Send(_)) => sendc += 1,
								Err(_) => other += 1,
							}
							if j % 16 == 0 {
								std::thread::yield_now();
							}
						}
						(okc, sendc, other)
					})
				})
				.collect();
			let (tx, rx) = std::sync::mpsc::channel();
			let p2 = p.clone();
			let b2 = barrier.clone();
			std::thread::spawn(move || {
				b2.wait();
				std::thread::sleep(Duration::from_millis(20));
				p2.stop();
				p2.wait();
				let _ = tx.send(());
			});
			// watchdog (generous, one-sided): stop + wait and all senders must come back
			let stopped = rx.recv_timeout(Duration::from_secs(90)).is_ok();
			let mut other = 0;
			let mut joined = true;
			for h in hs {
				match h.join() {
					Ok((_, _, o)) => other += o,
					Err(_) => joined = false,
				}
			}
			let verdict = if stopped && joined && other == 0 { "finished".to_string() } else { format!("stuck:stop-returned:{}:senders-ok:{}:unexpected-errors:{}", stopped, joined, other) };
			if verdict != "finished" {
				cx.fails += 1;
				cx.out.raw(&format!("#ORACLE-FAIL C19 Peer::stop / wait racing 6 senders: {}", verdict));
			}
			cx.stat("peers: stop / wait racing 6 senders");
			cx.out.line("codec stoprace 6", &verdict);
			drop(sock);
		}
	}

	// ---- stop with a frame in flight; is_connected after the reader gave up
	{
		let dir = work.join("peers-stopmid");
		let _ = std::fs::create_dir_all(&dir);
		let ad = mk_adapter(&dir, &mut cx.rng);
		if let Some((p, mut sock)) = mk_peer_port(ver, ad.clone(), cx.rng.next(), 4300) {
			let ping = |h: u64| frame_bytes(Type::Ping, &Ping { total_difficulty: Difficulty::from_num(5), height: h }, ver);
			let _ = sock.write_all(&ping(1));
			let first = read_one(&mut sock, 30_000).is_some();
			let f2 = ping(2);
			let _ = sock.write_all(&f2[..20]);
			// the reader is inside the body read of the second Ping (it went back to reading right after the Pong)
			std::thread::sleep(Duration::from_millis(1_500));
			let before = ad.log.lock().unwrap().len();
			p.stop();
			let mut rest = f2[20..].to_vec();
			rest.extend_from_slice(&ping(3));
			let _ = sock.write_all(&rest);
			p.wait();
			let seen: Vec<String> = ad.log.lock().unwrap()[before..].iter().filter(|l| l.starts_with("pdiff")).cloned().collect();
			let inflight = seen.iter().filter(|l| l.ends_with(":2")).count();
			let after = seen.iter().filter(|l| l.ends_with(":3")).count();
			if !first || inflight == 0 {
				cx.stat("peers: stop mid-frame - the reader had not reached the frame (skipped)");
			} else {
				cx.stat("peers: stop with a frame in flight");
				cx.out.line("codec stopmid", &format!("inflight:{};after:{};connected:{}", inflight, after, if p.is_connected() { 1 } else { 0 }));
			}
		}
		if let Some((p, mut sock)) = mk_peer_port(ver, ad, cx.rng.next(), 4301) {
			// a frame with the wrong magic: the reader refuses it and closes; nobody told the Peer
			let mut bad = frame_bytes(Type::Ping, &Ping { total_difficulty: Difficulty::from_num(5), height: 9 }, ver);
			bad[0] ^= 0x55;
			let _ = sock.write_all(&bad);
			let _ = sock.set_read_timeout(Some(Duration::from_secs(30)));
			let mut b = [0u8; 1];
			let closed = matches!(sock.read(&mut b), Ok(0) | Err(_));
			// (the writer thread lives on until `stop`: no `wait` here)
			let send_after = match p.send_ping(Difficulty::from_num(1), 1) {
				Ok(()) => "ok",
				Err(grin_p2p::Error::Send(_)) => "Send",
				Err(_) => "other",
			};
			cx.stat("peers: is_connected after the reader closed the connection");
			cx.out.line("codec deadconn", &format!("closed:{};is_connected:{};send:{}", if closed { 1 } else { 0 }, if p.is_connected() { 1 } else { 0 }, send_after));
			p.stop();
		}
	}
}


// ---------------------------------------------------------------------------------------------------
// increment 4: the io point inside the handler - the temporary file of an ACCEPTED archive cannot be created
// (`OpenOptions::create_new(true).open(path)?` -> io::Error -> Error::Connection -> the reader loop ends)

pub fn io_points(cx: &mut Ctx, work: &std::path::Path) {
	let ver = 1000u32;
	let dir = work.join("io-points");
	let _ = std::fs::create_dir_all(&dir);
	let ad = mk_adapter(&dir, &mut cx.rng);
	let (peer, mut sock) = match mk_peer_port(ver, ad.clone(), cx.rng.next(), 4400) {
		Some(x) => x,
		None => {
			cx.fails += 1;
			cx.out.raw("#ORACLE-FAIL C19 io points: the Peer could not be set up");
			return;
		}
	};
	cx.out.line(&format!("codec glue new accept {} 0 7f000001:4400 {} {}", ver, ad.td, ad.height), &format!("ok {}", peer.info.version.value()));
	ad.ready.store(true, Ordering::SeqCst);
	cx.out.line("codec glue ctl ready 1", "ok");
	let (rh, rhash) = (cx.rng.below(1 << 30), hash32(&mut cx.rng));
	let r = peer.send_txhashset_request(rh, rhash);
	let req = TxHashSetRequest { hash: rhash, height: rh };
	let frame = read_one(&mut sock, 30_000);
	let bodies: Vec<Vec<u8>> = VERSIONS.iter().map(|v| sv(&req, *v)).collect();
	cx.out.line(&format!("codec glue send txhashsetreq {}", hex_list(&bodies)), &format!("{}|{}", if r.is_ok() { "ok" } else { "err" }, frame.map(|f| hex(&f)).unwrap_or_else(|| "-".into())));
	ad.tmp_exists.store(true, Ordering::SeqCst);
	let att = cx.rng.bytes(5_000);
	let arch = TxHashSetArchive { hash: hash32(&mut cx.rng), height: cx.rng.below(1 << 30), bytes: att.len() as u64 };
	let before = ad.log.lock().unwrap().len();
	let mut f = frame_bytes(Type::TxHashSetArchive, &arch, ver);
	f.extend_from_slice(&att);
	f.extend_from_slice(&frame_bytes(Type::Ping, &Ping { total_difficulty: Difficulty::from_num(1), height: 2 }, ver));
	let _ = sock.write_all(&f);
	// the node must hang up: nothing of the attachment is read as frames, the Ping behind is not answered
	let _ = sock.set_read_timeout(Some(Duration::from_secs(60)));
	let mut b = [0u8; 64];
	let (mut closed, mut answered) = (false, 0usize);
	loop {
		match sock.read(&mut b) {
			Ok(0) | Err(_) => {
				closed = true;
				break;
			}
			Ok(n) => answered += n,
		}
		if answered > 1 << 16 {
			break;
		}
	}
	let log: Vec<String> = ad.log.lock().unwrap()[before..].to_vec();
	if !closed || answered > 0 {
		cx.fails += 1;
		cx.out.raw(&format!("#ORACLE-FAIL C19 io error inside the handler (temporary file of an accepted archive exists): closed {} , {} bytes answered", closed, answered));
	}
	cx.stat("glue: io point - the temporary file of an accepted archive cannot be created");
	cx.out.line(&format!("codec glue recvio archive {} {} {}", hex(arch.hash.as_bytes()), att.len(), checksum(&att)), &format!("[{}]|-|closed:{}", log.join(";"), if closed { 1 } else { 0 }));
	peer.stop();
}

// ---------------------------------------------------------------------------------------------------
// increment 4: `Server::check_undesirable` through a REAL `Server::listen` accept loop - the inbound limit
// (peer_max_inbound_count + peer_listener_buffer_count): connection number limit+1 is shut before any handshake

pub fn server_accept(cx: &mut Ctx, work: &std::path::Path) {
	use grin_p2p::Server;
	let g = Hash::from_vec(&[7u8; 32]);
	let plans: Vec<(u32, u32, usize)> = if cx.thorough { vec![(2, 1, 5), (0, 0, 2), (1, 0, 3), (0, 2, 4), (3, 0, 5)] } else { vec![(2, 1, 5), (0, 0, 2), (0, 1, 3)] };
	for (pi, (max_in, buffer, n)) in plans.iter().enumerate() {
		let dir = work.join(format!("server-{}", pi));
		let _ = std::fs::create_dir_all(&dir);
		let ad = mk_adapter(&dir, &mut cx.rng);
		// a free port
		let port = match TcpListener::bind("127.0.0.1:0").and_then(|l| l.local_addr()) {
			Ok(a) => a.port(),
			Err(_) => continue,
		};
		let mut config = P2PConfig::default();
		config.host = "127.0.0.1".parse().unwrap();
		config.port = port;
		config.peer_max_inbound_count = Some(*max_in);
		config.peer_listener_buffer_count = Some(*buffer);
		let stop = Arc::new(grin_util::StopState::new());
		let server = match Server::new(dir.to_str().unwrap(), Capabilities::default(), config, ad.clone(), g, stop.clone()) {
			Ok(s) => Arc::new(s),
			Err(_) => {
				cx.fails += 1;
				cx.out.raw("#ORACLE-FAIL C19 server: Server::new failed");
				continue;
			}
		};
		let s2 = server.clone();
		let th = std::thread::spawn(move || {
			global::set_local_chain_type(ChainTypes::AutomatedTesting);
			let _ = s2.listen();
		});
		// logical wait: until the listener accepts connections
		let deadline = Instant::now() + Duration::from_secs(30);
		let mut socks: Vec<TcpStream> = vec![];
		let mut res = String::new();
		for i in 0..*n {
			let mut c = loop {
				match TcpStream::connect(("127.0.0.1", port)) {
					Ok(c) => break Some(c),
					Err(_) if Instant::now() < deadline => std::thread::sleep(Duration::from_millis(20)),
					Err(_) => break None,
				}
			};
			let c = match c.as_mut() {
				Some(c) => c,
				None => {
					res.push('?');
					continue;
				}
			};
			let _ = c.set_nodelay(true);
			let hand = Hand {
				version: ProtocolVersion(1000),
				capabilities: Capabilities::default(),
				nonce: cx.rng.next(),
				genesis: g,
				total_difficulty: Difficulty::from_num(5),
				sender_addr: PeerAddr(format!("127.0.0.1:{}", 5000 + i).parse().unwrap()),
				receiver_addr: PeerAddr(format!("127.0.0.1:{}", port).parse().unwrap()),
				user_agent: "verif/server".to_string(),
			};
			let _ = c.write_all(&wire(&Msg::new(Type::Hand, hand, ProtocolVersion(1)).unwrap()));
			// a Shake, or the connection shut without a word
			match read_one(c, 30_000) {
				Some(f) if f[2] == Type::Shake as u8 => {
					res.push('1');
					// the peer counts as connected once it is in the map (logical wait)
					let want = socks.len() + 1;
					let dl = Instant::now() + Duration::from_secs(30);
					while server.peers.iter().inbound().connected().count() < want && Instant::now() < dl {
						std::thread::sleep(Duration::from_millis(5));
					}
					socks.push(c.try_clone().unwrap());
				}
				Some(_) => res.push('?'),
				None => res.push('0'),
			}
		}
		cx.stat(&format!("server: accept loop with peer_max_inbound_count {} + buffer {}, {} connections", max_in, buffer, n));
		cx.out.line(&format!("codec server limit {} {} {}", max_in, buffer, n), &res);
		server.stop();
		let _ = th.join();
		drop(socks);
	}
}

// ---------------------------------------------------------------------------------------------------
// increment 5: (thorough only) the WRITER THREAD's write timeout (BODY_IO_TIMEOUT = 60 s) on the real code.  The
// remote does not read; the writer blocks inside `write_all` of some message j after k of its bytes; after 60 s
// without progress `write_message` returns a timeout, `try_break!` tolerates it, `retry_send = Ok(data)` and the
// SAME message is written again from byte 0 (model: `Model/CodecConn.writerLoop`, theorem
// `C19Conn.retry_after_partial_write_desyncs`).  Outside "within the I/O timeouts"; recorded behaviour.

pub fn writer_stall(cx: &mut Ctx) {
	let ver = 1000u32;
	let (n, body_len) = (60usize, 1024 * 1024usize);
	let listener = TcpListener::bind("127.0.0.1:0").unwrap();
	let a_sock = TcpStream::connect(listener.local_addr().unwrap()).unwrap();
	let (mut b_sock, _) = listener.accept().unwrap();
	let tr = Arc::new(Tracker::new());
	let seen = Arc::new(Mutex::new(ext::Seen2::default()));
	let (ha, stop) = match listen(a_sock, ProtocolVersion(ver), tr, ext::Recorder2 { ver, work: std::path::PathBuf::new(), id: 0, scripted: false, seen }) {
		Ok(x) => x,
		Err(_) => return,
	};
	let mut frames: Vec<Vec<u8>> = vec![];
	for i in 0..n {
		let mut body = cx.rng.bytes(body_len);
		body[0] = i as u8;
		let m = Msg::new(Type::Block, ext::RawBody(body), ProtocolVersion(ver)).unwrap();
		frames.push(wire(&m));
		let _ = ha.send(m);
	}
	let total: usize = frames.iter().map(|f| f.len()).sum();
	// the writer runs into the full send path within seconds; 60 s later its write gives up; then it starts over
	std::thread::sleep(Duration::from_secs(135));
	let mut stream: Vec<u8> = Vec::with_capacity(total + body_len);
	let mut buf = vec![0u8; 1 << 16];
	let deadline = Instant::now() + Duration::from_secs(240);
	loop {
		let enough = stream.len() >= total;
		let _ = b_sock.set_read_timeout(Some(if enough { Duration::from_secs(5) } else { Duration::from_secs(90) }));
		match b_sock.read(&mut buf) {
			Ok(0) | Err(_) => break,
			Ok(k) => stream.extend_from_slice(&buf[..k]),
		}
		if Instant::now() > deadline {
			break;
		}
	}
	stop.stop();
	// structure of the stream: frames 0..j whole, k bytes of frame j, then frames j.. whole
	let flen = frames[0].len();
	let mut j = 0;
	while j < n && stream.len() >= (j + 1) * flen && stream[j * flen..(j + 1) * flen] == frames[j][..] {
		j += 1;
	}
	let verdict;
	let (mut jj, mut kk) = (j, 0usize);
	if j == n && stream.len() == total {
		verdict = "in-order".to_string();
	} else if stream.len() >= total && stream.len() < total + flen {
		let k = stream.len() - total;
		let pos = j * flen;
		let tail: Vec<u8> = frames[j..].iter().flat_map(|f| f.iter().cloned()).collect();
		let ok = j < n && stream[pos..pos + k] == frames[j][..k] && stream[pos + k..] == tail[..];
		kk = k;
		verdict = if ok { "resent-from-byte-0".to_string() } else { "other:structure".to_string() };
	} else {
		jj = j;
		verdict = format!("other:length:{}", stream.len());
	}
	cx.stat(&format!("wstall: {} messages of {} bytes to a remote that does not read for 135 s: {}", n, flen, verdict));
	cx.out.line(&format!("codec wstall {} {} {} {} {}", n, body_len, jj, kk, stream.len()), &verdict);
}

// ---------------------------------------------------------------------------------------------------
// increment 5: a RESPONSE whose write fails - the remote sends Pings and closes its socket without reading:
// the writer's `write_message` fails (not a timeout) -> the writer thread leaves and shuts the socket, the reader
// ends at end of stream; nothing is retried; both threads are gone WITHOUT `stop` (wait returns), later sends fail

pub fn response_write_fails(cx: &mut Ctx, work: &std::path::Path) {
	let ver = 1000u32;
	let dir = work.join("wclosed");
	let _ = std::fs::create_dir_all(&dir);
	let ad = mk_adapter(&dir, &mut cx.rng);
	if let Some((p, mut sock)) = mk_peer_port(ver, ad.clone(), cx.rng.next(), 4500) {
		let before = ad.log.lock().unwrap().len();
		let mut f = vec![];
		for h in 0..3u64 {
			f.extend_from_slice(&frame_bytes(Type::Ping, &Ping { total_difficulty: Difficulty::from_num(5), height: h }, ver));
		}
		let _ = sock.write_all(&f);
		let _ = sock.shutdown(Shutdown::Both);
		drop(sock);
		let p = Arc::new(p);
		let (tx, rx) = std::sync::mpsc::channel();
		let p2 = p.clone();
		std::thread::spawn(move || {
			// NO stop(): both threads have to end on their own (reader: end of stream; writer: failed write)
			p2.wait();
			let _ = tx.send(());
		});
		let ended = rx.recv_timeout(Duration::from_secs(90)).is_ok();
		let handled = ad.log.lock().unwrap()[before..].iter().filter(|l| l.starts_with("pdiff")).count();
		let send_after = match p.send_ping(Difficulty::from_num(1), 1) {
			Ok(()) => "ok",
			Err(grin_p2p::Error::Send(_)) => "Send",
			Err(_) => "other",
		};
		if !ended {
			cx.fails += 1;
			cx.out.raw("#ORACLE-FAIL C19 a response whose write fails: reader / writer thread still alive 90 s after the remote closed");
			p.stop();
		}
		cx.stat(&format!("wclosed: remote closed behind 3 Pings, {} of them reached the handler", handled));
		cx.out.line("codec wclosed", &format!("ended:{};send:{}", if ended { 1 } else { 0 }, send_after));
	}
}

// ---------------------------------------------------------------------------------------------------
// increment 5: `Peers::clean_peers` on a real `Peers` with 0..12 real Peers (inbound via Peer::accept, outbound
// via Peer::connect), flags set on the real objects: banned (set_banned), abusive (501 counted reads in the
// tracker), stuck (stuck_detector 3 h ago), total difficulty, preferred (config.peers_preferred)

fn mk_peer_out(ad: Arc<glue::GlueAdapter>) -> Option<(Peer, TcpStream)> {
	let g = Hash::from_vec(&[7u8; 32]);
	let listener = TcpListener::bind("127.0.0.1:0").ok()?;
	let laddr = listener.local_addr().ok()?;
	let t = std::thread::spawn(move || {
		global::set_local_chain_type(ChainTypes::AutomatedTesting);
		let hs = Handshake::new(g, P2PConfig::default());
		let conn = TcpStream::connect(laddr).ok()?;
		Peer::connect(conn, Capabilities::default(), Difficulty::from_num(9), PeerAddr("127.0.0.1:3414".parse().unwrap()), &hs, ad).ok()
	});
	let (mut remote, _) = listener.accept().ok()?;
	let _ = read_one(&mut remote, 30_000)?;
	let shake = Shake { version: ProtocolVersion(1000), capabilities: Capabilities::default(), genesis: g, total_difficulty: Difficulty::from_num(5), user_agent: "verif/clean".to_string() };
	remote.write_all(&wire(&Msg::new(Type::Shake, shake, ProtocolVersion(1)).unwrap())).ok()?;
	Some((t.join().ok()??, remote))
}

pub fn clean_run(cx: &mut Ctx, work: &std::path::Path) {
	use grin_p2p::store::PeerStore;
	use grin_p2p::Peers;
	// (max inbound, max outbound, peers: direction o|i, flags b a s p, difficulty)
	let big = 3_000_000_000u64;
	let plans: Vec<(usize, usize, Vec<(char, &str, u64)>)> = vec![
		(8, 8, vec![]),
		(8, 3, vec![('o', "p", 10), ('o', "s", 20), ('o', "", 30), ('o', "", 40), ('o', "", 50), ('i', "", 1), ('i', "", 2), ('i', "", 3), ('i', "", 4)]),
		(5, 8, vec![('o', "b", 10), ('o', "a", 20), ('o', "s", big), ('o', "", 40), ('i', "p", 1), ('i', "", 2), ('i', "s", 3), ('i', "", 4), ('i', "", 5), ('i', "", 6), ('i', "b", 7), ('i', "", 8)]),
		(0, 0, vec![('o', "p", 10), ('o', "", 20), ('i', "p", 1), ('i', "", 2)]),
	];
	for (pi, (max_in, max_out, spec)) in plans.iter().enumerate() {
		let dir = work.join(format!("clean-{}", pi));
		let _ = std::fs::create_dir_all(&dir);
		let ad = mk_adapter(&dir, &mut cx.rng);
		let store = match PeerStore::new(dir.to_str().unwrap()) {
			Ok(s) => s,
			Err(_) => continue,
		};
		let mut made: Vec<(Arc<Peer>, TcpStream)> = vec![];
		for (i, (d, _, _)) in spec.iter().enumerate() {
			let r = if *d == 'o' { mk_peer_out(ad.clone()) } else { mk_peer_port(1000, ad.clone(), cx.rng.next(), 4600 + i as u16) };
			match r {
				Some((p, s)) => made.push((Arc::new(p), s)),
				None => {
					cx.fails += 1;
					cx.out.raw("#ORACLE-FAIL C19 clean: a peer could not be set up");
					return;
				}
			}
		}
		let mut config = P2PConfig::default();
		config.peer_min_preferred_outbound_count = Some(100);
		let preferred: Vec<PeerAddr> = spec.iter().zip(made.iter()).filter(|((_, f, _), _)| f.contains('p')).map(|(_, (p, _))| p.info.addr).collect();
		config.peers_preferred = Some(PeerAddrs { peers: preferred });
		let peers = Peers::new(store, ad.clone(), config.clone());
		for ((_, flags, diff), (p, _)) in spec.iter().zip(made.iter()) {
			{
				let mut li = p.info.live_info.write();
				li.total_difficulty = Difficulty::from_num(*diff);
				if flags.contains('s') {
					li.stuck_detector = Utc::now() - chrono::Duration::hours(3);
				}
			}
			if flags.contains('a') {
				let mut rc = p.tracker().received_bytes.write();
				for _ in 0..501 {
					rc.inc(1);
				}
			}
			let _ = peers.add_connected(p.clone());
			if flags.contains('b') {
				p.set_banned();
			}
		}
		peers.clean_peers(*max_in, *max_out, config);
		let left: Vec<PeerAddr> = peers.iter().into_iter().map(|p| p.info.addr).collect();
		let bits: String = made.iter().map(|(p, _)| if left.contains(&p.info.addr) { '0' } else { '1' }).collect();
		let spec_txt: Vec<String> = spec.iter().map(|(d, f, diff)| format!("{}{}:{}", d, f, diff)).collect();
		cx.stat(&format!("clean: clean_peers over {} real peers (max inbound {}, max outbound {})", spec.len(), max_in, max_out));
		cx.out.line(
			&format!("codec clean {} {} {} {}", max_in, max_out, ad.td, if spec_txt.is_empty() { "-".to_string() } else { spec_txt.join(",") }),
			&(if bits.is_empty() { "-".to_string() } else { bits }),
		);
		peers.stop();
	}
}
