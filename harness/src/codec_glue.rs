//! C19, the glue above `conn` (included by src/bin/codec.rs as `mod glue`): a real `Peer` (peer.rs:
//! `Peer::accept` / `Peer::connect`, `Peer::send_*`, the `TrackingAdapter`) with the real `Protocol`
//! (protocol.rs) behind a real Hand/Shake, talking to a RAW socket that the harness scripts.
//!
//! One node per negotiated protocol version; a stateful conversation, one line per step
//! (driver: `GV.Drv.CodecD.handleGlue`, model `Model/CodecGlue.lean`):
//!   codec glue new <dir> <hand/shake ver> <remote caps> <peer ip hex>:<port> <our td> <our height> => ok <negotiated version>
//!   codec glue ctl ban|ready <0|1>                 => ok
//!   codec glue recv <kind> <args…>                 => [<adapter calls>]|<response frame hex | ->|closed:<0|1>
//!       the raw socket writes ONE frame (serialised at the negotiated version); what the recording adapter
//!       behind the TrackingAdapter was called with, the frame the node answered with, whether the node closed
//!   codec glue send <kind> <args…> <[body@1,body@2,body@3,body@1000]> => <ret>|<frame hex | ->
//!       the harness calls `Peer::send_*`; `ret` = what it returned, the frame the raw socket then received
use super::*;
use std::sync::atomic::AtomicBool;

pub struct GlueAdapter {
	pub log: Mutex<Vec<String>>,
	pub banned: AtomicBool,
	pub ready: AtomicBool,
	pub td: u64,
	pub height: u64,
	pub block: Mutex<Option<Block>>,
	pub tx: Mutex<Option<Transaction>>,
	pub peers: Vec<PeerAddr>,
	pub work: std::path::PathBuf,
	/// `txhashset_archive_header()` / `txhashset_read()`: the archive this node serves
	pub arch_hdr: Mutex<Option<BlockHeader>>,
	pub arch_data: Mutex<Option<Vec<u8>>>,
	/// the PIBD segments this node serves (`get_*_segment`)
	pub segs: Mutex<Option<SegStore>>,
	/// the adapter method that fails (once) with a chain error
	pub fail: Mutex<Option<String>>,
	/// `get_tmpfile_pathname` hands out a path that already exists (`create_new` must fail)
	pub tmp_exists: AtomicBool,
}

#[derive(Clone)]
pub struct SegStore {
	pub kernel: Segment<TxKernel>,
	pub bitmap: (Segment<grin_chain::txhashset::BitmapChunk>, Hash),
	pub output: (Segment<OutputIdentifier>, Hash),
	pub rproof: Segment<RangeProof>,
}

impl GlueAdapter {
	fn push(&self, s: String) {
		self.log.lock().unwrap().push(s);
	}
	/// `Err(chain::Error)` when this method is the one scripted to fail (used up by the failure)
	fn failing<T>(&self, name: &str) -> Result<(), grin_chain::Error> {
		let mut f = self.fail.lock().unwrap();
		if f.as_deref() == Some(name) {
			*f = None;
			let _ = std::marker::PhantomData::<T>;
			return Err(grin_chain::Error::Other(format!("verif: {} fails", name)));
		}
		Ok(())
	}
}

fn addr_txt(a: &PeerAddr) -> String {
	let ip = match a.0.ip() {
		std::net::IpAddr::V4(x) => hex(&x.octets()),
		std::net::IpAddr::V6(x) => hex(&x.octets()),
	};
	format!("{}:{}", ip, a.0.port())
}

impl ChainAdapter for GlueAdapter {
	fn total_difficulty(&self) -> Result<Difficulty, grin_chain::Error> {
		self.push("td".into());
		self.failing::<()>("total_difficulty")?;
		Ok(Difficulty::from_num(self.td))
	}
	fn total_height(&self) -> Result<u64, grin_chain::Error> {
		self.push("height".into());
		self.failing::<()>("total_height")?;
		Ok(self.height)
	}
	fn transaction_received(&self, tx: Transaction, stem: bool) -> Result<bool, grin_chain::Error> {
		// (the hash of a transaction with inputs depends on the input representation the protocol version
		// selects; the first kernel's hash - what the TrackingAdapter goes by - does not)
		self.push(format!("tx:{}:{}", tx.kernels().first().map(|k| hex(k.hash().as_bytes())).unwrap_or_else(|| "-".into()), if stem { 1 } else { 0 }));
		self.failing::<()>("transaction_received")?;
		Ok(true)
	}
	fn get_transaction(&self, h: Hash) -> Option<Transaction> {
		self.push(format!("gettx:{}", hex(h.as_bytes())));
		let t = self.tx.lock().unwrap();
		match &*t {
			Some(tx) if tx.kernels()[0].hash() == h => Some(tx.clone()),
			_ => None,
		}
	}
	fn tx_kernel_received(&self, h: Hash, _p: &PeerInfo) -> Result<bool, grin_chain::Error> {
		self.push(format!("kernel:{}", hex(h.as_bytes())));
		self.failing::<()>("tx_kernel_received")?;
		Ok(true)
	}
	fn block_received(&self, b: Block, _p: &PeerInfo, o: grin_chain::Options) -> Result<bool, grin_chain::Error> {
		self.push(format!("block:{}:{}", hex(b.hash().as_bytes()), o.bits()));
		self.failing::<()>("block_received")?;
		Ok(true)
	}
	fn compact_block_received(&self, cb: CompactBlock, _p: &PeerInfo) -> Result<bool, grin_chain::Error> {
		self.push(format!("cblock:{}", hex(cb.hash().as_bytes())));
		self.failing::<()>("compact_block_received")?;
		Ok(true)
	}
	fn header_received(&self, bh: BlockHeader, _p: &PeerInfo) -> Result<bool, grin_chain::Error> {
		self.push(format!("header:{}", hex(bh.hash().as_bytes())));
		self.failing::<()>("header_received")?;
		Ok(true)
	}
	fn headers_received(&self, bh: &[BlockHeader], _p: &PeerInfo) -> Result<bool, grin_chain::Error> {
		self.push(format!("headers:{}", bh.len()));
		self.failing::<()>("headers_received")?;
		Ok(true)
	}
	fn locate_headers(&self, l: &[Hash]) -> Result<Vec<BlockHeader>, grin_chain::Error> {
		self.push(format!("locate:{}", l.len()));
		self.failing::<()>("locate_headers")?;
		Ok(self.block.lock().unwrap().iter().map(|b| b.header.clone()).collect())
	}
	fn get_block(&self, h: Hash, _p: &PeerInfo) -> Option<Block> {
		self.push(format!("getblock:{}", hex(h.as_bytes())));
		let b = self.block.lock().unwrap();
		match &*b {
			Some(b) if b.hash() == h => Some(b.clone()),
			_ => None,
		}
	}
	fn txhashset_read(&self, h: Hash) -> Option<TxHashSetRead> {
		self.push("tzread".into());
		let hdr = self.arch_hdr.lock().unwrap().clone();
		if hdr.map(|x| x.hash()) != Some(h) {
			return None;
		}
		let data = self.arch_data.lock().unwrap().clone()?;
		let path = self.work.join(format!("served-{}.zip", hex(&h.as_bytes()[..6])));
		std::fs::write(&path, &data).ok()?;
		Some(TxHashSetRead { output_index: 0, kernel_index: 0, reader: std::fs::File::open(&path).ok()? })
	}
	fn txhashset_archive_header(&self) -> Result<BlockHeader, grin_chain::Error> {
		self.push("archhdr".into());
		self.failing::<()>("txhashset_archive_header")?;
		match &*self.arch_hdr.lock().unwrap() {
			Some(h) => Ok(h.clone()),
			None => Err(grin_chain::Error::Other("no archive".into())),
		}
	}
	fn txhashset_receive_ready(&self) -> bool {
		self.push("ready".into());
		self.ready.load(Ordering::SeqCst)
	}
	fn txhashset_download_update(&self, _s: chrono::DateTime<Utc>, d: u64, t: u64) -> bool {
		self.push(format!("dl:{}:{}", d, t));
		true
	}
	fn txhashset_write(&self, h: Hash, mut f: std::fs::File, _p: &PeerInfo) -> Result<bool, grin_chain::Error> {
		let mut data = vec![];
		let _ = f.read_to_end(&mut data);
		self.push(format!("archive:{}:{}:{}", hex(h.as_bytes()), data.len(), checksum(&data)));
		self.failing::<()>("txhashset_write")?;
		Ok(false)
	}
	fn get_tmp_dir(&self) -> std::path::PathBuf {
		self.work.clone()
	}
	fn get_tmpfile_pathname(&self, n: String) -> std::path::PathBuf {
		self.push("tmpfile".into());
		if self.tmp_exists.load(Ordering::SeqCst) {
			let p = self.work.join("already-there.zip");
			let _ = std::fs::write(&p, b"x");
			return p;
		}
		self.work.join(n)
	}
	fn get_kernel_segment(&self, _h: Hash, _i: SegmentIdentifier) -> Result<Segment<TxKernel>, grin_chain::Error> {
		self.push("getseg:kernel".into());
		self.segs.lock().unwrap().as_ref().map(|s| s.kernel.clone()).ok_or_else(|| grin_chain::Error::Other("no segments".into()))
	}
	fn get_bitmap_segment(&self, _h: Hash, _i: SegmentIdentifier) -> Result<(Segment<grin_chain::txhashset::BitmapChunk>, Hash), grin_chain::Error> {
		self.push("getseg:bitmap".into());
		self.segs.lock().unwrap().as_ref().map(|s| s.bitmap.clone()).ok_or_else(|| grin_chain::Error::Other("no segments".into()))
	}
	fn get_output_segment(&self, _h: Hash, _i: SegmentIdentifier) -> Result<(Segment<OutputIdentifier>, Hash), grin_chain::Error> {
		self.push("getseg:output".into());
		self.segs.lock().unwrap().as_ref().map(|s| s.output.clone()).ok_or_else(|| grin_chain::Error::Other("no segments".into()))
	}
	fn get_rangeproof_segment(&self, _h: Hash, _i: SegmentIdentifier) -> Result<Segment<RangeProof>, grin_chain::Error> {
		self.push("getseg:rproof".into());
		self.segs.lock().unwrap().as_ref().map(|s| s.rproof.clone()).ok_or_else(|| grin_chain::Error::Other("no segments".into()))
	}
	fn receive_bitmap_segment(&self, _b: Hash, _o: Hash, _s: Segment<grin_chain::txhashset::BitmapChunk>) -> Result<bool, grin_chain::Error> {
		self.push("seg:bitmap".into());
		self.failing::<()>("receive_bitmap_segment")?;
		Ok(false)
	}
	fn receive_output_segment(&self, _b: Hash, _r: Hash, _s: Segment<OutputIdentifier>) -> Result<bool, grin_chain::Error> {
		self.push("seg:output".into());
		self.failing::<()>("receive_output_segment")?;
		Ok(false)
	}
	fn receive_rangeproof_segment(&self, _b: Hash, _s: Segment<RangeProof>) -> Result<bool, grin_chain::Error> {
		self.push("seg:rproof".into());
		self.failing::<()>("receive_rangeproof_segment")?;
		Ok(false)
	}
	fn receive_kernel_segment(&self, _b: Hash, _s: Segment<TxKernel>) -> Result<bool, grin_chain::Error> {
		self.push("seg:kernel".into());
		self.failing::<()>("receive_kernel_segment")?;
		Ok(false)
	}
}
impl NetAdapter for GlueAdapter {
	fn find_peer_addrs(&self, c: Capabilities) -> Vec<PeerAddr> {
		self.push(format!("findpeers:{}", c.bits()));
		self.peers.clone()
	}
	fn peer_addrs_received(&self, a: Vec<PeerAddr>) {
		self.push(format!("peeraddrs:{}", a.len()));
	}
	fn peer_difficulty(&self, a: PeerAddr, d: Difficulty, height: u64) {
		self.push(format!("pdiff:{}:{}:{}", addr_txt(&a), d.to_num(), height));
	}
	fn is_banned(&self, _: PeerAddr) -> bool {
		self.banned.load(Ordering::SeqCst)
	}
}

fn read_frame(s: &mut TcpStream, ms: u64) -> Result<Option<Vec<u8>>, bool> {
	// Ok(Some(frame)) | Ok(None) = nothing within `ms` | Err(closed)
	let _ = s.set_read_timeout(Some(Duration::from_millis(ms)));
	let mut head = [0u8; 11];
	let mut got = 0;
	while got < 11 {
		match s.read(&mut head[got..]) {
			Ok(0) => return Err(true),
			Ok(n) => got += n,
			Err(e) if e.kind() == std::io::ErrorKind::WouldBlock || e.kind() == std::io::ErrorKind::TimedOut => {
				if got == 0 {
					return Ok(None);
				}
				let _ = s.set_read_timeout(Some(Duration::from_secs(30)));
			}
			Err(_) => return Err(true),
		}
	}
	let mut l = [0u8; 8];
	l.copy_from_slice(&head[3..11]);
	let mut body = vec![0u8; (u64::from_be_bytes(l) as usize).min(1 << 22)];
	let _ = s.set_read_timeout(Some(Duration::from_secs(30)));
	if s.read_exact(&mut body).is_err() {
		return Err(true);
	}
	let mut v = head.to_vec();
	v.extend_from_slice(&body);
	Ok(Some(v))
}

struct Node {
	ver: u32,
	peer: Peer,
	sock: TcpStream,
	ad: Arc<GlueAdapter>,
	closed: bool,
}

fn frame_of<T: Writeable>(t: Type, body: &T, ver: u32) -> Vec<u8> {
	wire(&Msg::new(t, RawBodyG(sv(body, ver)), ProtocolVersion(ver)).unwrap())
}

pub struct RawBodyG(pub Vec<u8>);
impl Writeable for RawBodyG {
	fn write<W: grin_core::ser::Writer>(&self, writer: &mut W) -> Result<(), ser::Error> {
		writer.write_fixed_bytes(&self.0)
	}
}

fn bodies<T: Writeable>(x: &T) -> String {
	let v: Vec<Vec<u8>> = VERSIONS.iter().map(|v| sv(x, *v)).collect();
	hex_list(&v)
}

impl Node {
	/// the raw socket writes `frame`; expects `n_log` new adapter entries, `resp` a response frame, or the close
	fn recv(&mut self, cx: &mut Lx, what: &str, frame: &[u8], n_log: usize, resp: bool, close: bool) {
		let before = self.ad.log.lock().unwrap().len();
		let wrote = self.sock.write_all(frame).is_ok();
		let mut resp_frame: Option<Vec<u8>> = None;
		let deadline = Instant::now() + Duration::from_secs(60);
		// logical wait: until everything that is due has happened (or the node hung up)
		loop {
			let have = self.ad.log.lock().unwrap().len() - before;
			if !self.closed && (resp || close) && resp_frame.is_none() {
				match read_frame(&mut self.sock, 20) {
					Ok(Some(f)) => resp_frame = Some(f),
					Ok(None) => {}
					Err(_) => self.closed = true,
				}
			}
			let done = have >= n_log && (!resp || resp_frame.is_some()) && (!close || self.closed);
			if done || self.closed || !wrote || Instant::now() > deadline {
				break;
			}
			if !(resp || close) {
				std::thread::sleep(Duration::from_millis(5));
			}
		}
		// nothing more is due: a stray frame or a late close shows up here
		if !self.closed && resp_frame.is_none() {
			match read_frame(&mut self.sock, if close || resp { 300 } else { 60 }) {
				Ok(Some(f)) => resp_frame = Some(f),
				Ok(None) => {}
				Err(_) => self.closed = true,
			}
		}
		// a TxHashSetArchive answer is followed by the attachment: exactly the announced number of bytes
		let mut att_txt = String::new();
		if let Some(f) = &resp_frame {
			if f.len() >= 19 && f[2] == Type::TxHashSetArchive as u8 {
				let mut l = [0u8; 8];
				l.copy_from_slice(&f[f.len() - 8..]);
				let mut att = vec![0u8; (u64::from_be_bytes(l) as usize).min(1 << 24)];
				let _ = self.sock.set_read_timeout(Some(Duration::from_secs(30)));
				if self.sock.read_exact(&mut att).is_err() {
					self.closed = true;
					att_txt = ":att:short".into();
				} else {
					att_txt = format!(":att:{}:{}", att.len(), checksum(&att));
				}
				// nothing may follow the attachment
				match read_frame(&mut self.sock, 150) {
					Ok(Some(_)) => att_txt.push_str(":trailing"),
					Ok(None) => {}
					Err(_) => self.closed = true,
				}
			}
		}
		let log: Vec<String> = self.ad.log.lock().unwrap()[before..].to_vec();
		let label = match what.strip_prefix("@f:") {
			Some(rest) => format!("codec glue recvf {}", rest),
			None => format!("codec glue recv {}", what),
		};
		cx.line(
			&label,
			&format!(
				"[{}]|{}|closed:{}",
				log.join(";"),
				// a compact block is derived from the block with a fresh random nonce: type and length only
				resp_frame.as_ref().map(|f| if what.starts_with("getcblock") { format!("len:{}:{}", f[2], f.len()) } else { format!("{}{}", hex(f), att_txt) }).unwrap_or_else(|| "-".into()),
				if self.closed { 1 } else { 0 }
			),
		);
	}

	/// after a `Peer::send_*` call: the frame the raw socket receives (`want`), or that none arrives
	fn sent(&mut self, cx: &mut Lx, what: &str, ret: &str, want: bool, bodies_txt: &str, expect_body: Option<Vec<u8>>, t: Type) {
		let mut frame: Option<Vec<u8>> = None;
		if !self.closed {
			match read_frame(&mut self.sock, if want { 30_000 } else { 250 }) {
				Ok(Some(f)) => frame = Some(f),
				Ok(None) => {}
				Err(_) => self.closed = true,
			}
		}
		// oracle on the implementation: the body is the value serialised at the NEGOTIATED version
		if let (Some(f), Some(b)) = (&frame, &expect_body) {
			if f.len() < 11 || f[2] != t as u8 || &f[11..] != &b[..] {
				cx.fails += 1;
				cx.raw(&format!(
					"#ORACLE-FAIL C19 Peer::send ({}) at negotiated version {}: the frame on the wire is not the message serialised at the negotiated version: type byte {} (expected {}), body {} expected {}",
					what, self.ver, f.get(2).copied().unwrap_or(0), t as u8, hex(&f[11.min(f.len())..]).chars().take(160).collect::<String>(), hex(b).chars().take(160).collect::<String>()
				));
			}
		}
		if want != frame.is_some() {
			cx.fails += 1;
			cx.raw(&format!("#ORACLE-FAIL C19 Peer::send ({}) returned {} but a frame on the wire: {}", what, ret, frame.is_some()));
		}
		cx.line(&format!("codec glue send {} {}", what, bodies_txt), &format!("{}|{}", ret, frame.as_ref().map(|f| hex(f)).unwrap_or_else(|| "-".into())));
	}
}

fn mk_tx(cx: &mut Lx, n_in: usize) -> Transaction {
	let outs: Vec<Output> = (0..1 + cx.rng.below(2)).map(|_| gen_output(&mut cx.rng)).collect();
	let kerns: Vec<TxKernel> = (0..1 + cx.rng.below(2)).map(|_| gen_kernel(&mut cx.rng)).collect();
	let ins: Vec<Input> = (0..n_in).map(|_| Input::new(OutputFeatures::Plain, rand_commit(&mut cx.rng))).collect();
	Transaction::new(Inputs::from(ins.as_slice()), &outs, &kerns)
}

fn hx(h: Hash) -> String {
	hex(h.as_bytes())
}

fn conversation(cx: &mut Lx, work: &std::path::Path, _id: usize, accept: bool, remote_ver: u32, remote_caps: u32, segs: Option<SegStore>) {
	let g = Hash::from_vec(&[7u8; 32]);
	let ver = remote_ver.min(1000);
	let (td, height) = (1_000_000 + cx.rng.below(1 << 40), 1 + cx.rng.below(1 << 30));
	let stored_block = cx.block(1, 2);
	let stored_tx = mk_tx(cx, 2);
	let ad = Arc::new(GlueAdapter {
		log: Mutex::new(vec![]),
		banned: AtomicBool::new(false),
		ready: AtomicBool::new(false),
		td,
		height,
		block: Mutex::new(Some(stored_block.clone())),
		tx: Mutex::new(Some(stored_tx.clone())),
		peers: (0..3).map(|_| gen_addr(&mut cx.rng)).collect(),
		work: work.to_path_buf(),
		arch_hdr: Mutex::new(None),
		arch_data: Mutex::new(None),
		segs: Mutex::new(None),
		fail: Mutex::new(None),
		tmp_exists: AtomicBool::new(false),
	});
	let ad2: Arc<GlueAdapter> = ad.clone();
	let listener = TcpListener::bind("127.0.0.1:0").unwrap();
	let laddr = listener.local_addr().unwrap();
	let caps = Capabilities::from_bits_truncate(remote_caps);
	let remote_self = PeerAddr("127.0.0.1:3414".parse().unwrap());
	let (peer, sock, peer_addr_txt) = if accept {
		let mut client = TcpStream::connect(laddr).unwrap();
		client.set_nodelay(true).unwrap();
		let (server, _) = listener.accept().unwrap();
		let t = std::thread::spawn(move || {
			global::set_local_chain_type(ChainTypes::AutomatedTesting);
			let hs = Handshake::new(g, P2PConfig::default());
			Peer::accept(server, Capabilities::default(), Difficulty::from_num(td), &hs, ad2).map_err(|e| err_name(&e))
		});
		let hand = Hand {
			version: ProtocolVersion(remote_ver),
			capabilities: caps,
			nonce: cx.rng.next(),
			genesis: g,
			total_difficulty: Difficulty::from_num(5),
			sender_addr: remote_self,
			receiver_addr: PeerAddr(laddr),
			user_agent: "verif/glue".to_string(),
		};
		let _ = client.write_all(&wire(&Msg::new(Type::Hand, hand, ProtocolVersion(1)).unwrap()));
		let shake = read_frame(&mut client, 30_000);
		let peer = match t.join() {
			Ok(Ok(p)) => p,
			_ => {
				cx.fails += 1;
				cx.raw("#ORACLE-FAIL C19 glue: Peer::accept failed on a well-formed Hand");
				return;
			}
		};
		if !matches!(shake, Ok(Some(_))) {
			cx.fails += 1;
			cx.raw("#ORACLE-FAIL C19 glue: no Shake");
			return;
		}
		// info.addr = ip of the socket, advertised port
		(peer, client, "7f000001:3414".to_string())
	} else {
		let t = std::thread::spawn(move || {
			global::set_local_chain_type(ChainTypes::AutomatedTesting);
			let hs = Handshake::new(g, P2PConfig::default());
			let conn = TcpStream::connect(laddr).map_err(|e| e.to_string())?;
			Peer::connect(conn, Capabilities::default(), Difficulty::from_num(td), PeerAddr("127.0.0.1:3415".parse().unwrap()), &hs, ad2).map_err(|e| err_name(&e))
		});
		let (mut remote, _) = listener.accept().unwrap();
		remote.set_nodelay(true).unwrap();
		let _hand = read_frame(&mut remote, 30_000);
		let shake = Shake { version: ProtocolVersion(remote_ver), capabilities: caps, genesis: g, total_difficulty: Difficulty::from_num(5), user_agent: "verif/glue".to_string() };
		let _ = remote.write_all(&wire(&Msg::new(Type::Shake, shake, ProtocolVersion(1)).unwrap()));
		let peer = match t.join() {
			Ok(Ok(p)) => p,
			_ => {
				cx.fails += 1;
				cx.raw("#ORACLE-FAIL C19 glue: Peer::connect failed on a well-formed Shake");
				return;
			}
		};
		(peer, remote, format!("7f000001:{}", laddr.port()))
	};
	cx.stat(&format!("glue: conversation ({}, remote version {}, remote capabilities {})", if accept { "accept" } else { "connect" }, remote_ver, remote_caps));
	cx.line(
		&format!("codec glue new {} {} {} {} {} {}", if accept { "accept" } else { "connect" }, remote_ver, caps.bits(), peer_addr_txt, td, height),
		&format!("ok {}", peer.info.version.value()),
	);
	if peer.info.version.value() != ver {
		cx.fails += 1;
		cx.raw(&format!("#ORACLE-FAIL C19 glue: negotiated version {} for remote version {} (local 1000)", peer.info.version.value(), remote_ver));
	}
	let mut n = Node { ver, peer, sock, ad, closed: false };
	let pv = ver;

	// --- ping / pong bookkeeping
	let (ptd, ph) = (cx.rng.below(1 << 50), cx.rng.below(1 << 40));
	n.recv(cx, &format!("ping {} {}", ptd, ph), &frame_of(Type::Ping, &Ping { total_difficulty: Difficulty::from_num(ptd), height: ph }, pv), 3, true, false);
	let (ptd, ph) = (cx.rng.below(1 << 50), cx.rng.below(1 << 40));
	n.recv(cx, &format!("pong {} {}", ptd, ph), &frame_of(Type::Pong, &Pong { total_difficulty: Difficulty::from_num(ptd), height: ph }, pv), 1, false, false);
	let (std_, sh) = (cx.rng.below(1 << 50), cx.rng.below(1 << 40));
	let r = n.peer.send_ping(Difficulty::from_num(std_), sh);
	let ping = Ping { total_difficulty: Difficulty::from_num(std_), height: sh };
	n.sent(cx, &format!("ping {} {}", std_, sh), if r.is_ok() { "ok" } else { "err" }, true, &bodies(&ping), Some(sv(&ping, pv)), Type::Ping);

	// --- what the remote sends us is remembered (TrackingAdapter) and not sent back
	let h1 = cx.header();
	let b2 = cx.block(1, 1);
	let cb2: CompactBlock = b2.clone().into();
	let b3 = cx.block(2, 2);
	let cb3: CompactBlock = b3.clone().into();
	let t4 = mk_tx(cx, 2);
	let t5 = mk_tx(cx, 1);
	let k6 = hash32(&mut cx.rng);
	let h7 = cx.header();
	n.recv(cx, &format!("header {}", hx(h1.hash())), &frame_of(Type::Header, &h1, pv), 1, false, false);
	n.recv(cx, &format!("cblock {}", hx(cb2.hash())), &frame_of(Type::CompactBlock, &cb2, pv), 1, false, false);
	n.recv(cx, &format!("block {}", hx(b3.hash())), &frame_of(Type::Block, &b3, pv), 1, false, false);
	n.recv(cx, &format!("tx {}", hx(t4.kernels()[0].hash())), &frame_of(Type::Transaction, &t4, pv), 1, false, false);
	n.recv(cx, &format!("stem {}", hx(t5.kernels()[0].hash())), &frame_of(Type::StemTransaction, &t5, pv), 1, false, false);
	n.recv(cx, &format!("kernel {}", hx(k6)), &frame_of(Type::TransactionKernel, &k6, pv), 1, false, false);

	let send_header = |n: &mut Node, cx: &mut Lx, h: &BlockHeader| {
		let r = n.peer.send_header(h);
		let want = matches!(r, Ok(true));
		n.sent(cx, &format!("header {}", hx(h.hash())), &format!("{:?}", r.as_ref().ok()), want, &bodies(h), Some(sv(h, pv)), Type::Header);
	};
	let send_cblock = |n: &mut Node, cx: &mut Lx, cb: &CompactBlock| {
		let r = n.peer.send_compact_block(cb);
		let want = matches!(r, Ok(true));
		n.sent(cx, &format!("cblock {}", hx(cb.hash())), &format!("{:?}", r.as_ref().ok()), want, &bodies(cb), Some(sv(cb, pv)), Type::CompactBlock);
	};
	let send_kernel = |n: &mut Node, cx: &mut Lx, h: Hash| {
		let r = n.peer.send_tx_kernel_hash(h);
		let want = matches!(r, Ok(true));
		n.sent(cx, &format!("kernel {}", hx(h)), &format!("{:?}", r.as_ref().ok()), want, &bodies(&h), Some(sv(&h, pv)), Type::TransactionKernel);
	};
	let kernel_caps = caps.contains(Capabilities::TX_KERNEL_HASH);
	let send_tx = |n: &mut Node, cx: &mut Lx, tx: &Transaction| {
		let r = n.peer.send_transaction(tx);
		let want = matches!(r, Ok(true));
		let k0 = tx.kernels()[0].hash();
		let (exp, t) = if kernel_caps { (sv(&k0, pv), Type::TransactionKernel) } else { (sv(tx, pv), Type::Transaction) };
		n.sent(cx, &format!("tx {}", hx(k0)), &format!("{:?}", r.as_ref().ok()), want, &bodies(tx), Some(exp), t);
	};
	send_header(&mut n, cx, &h1);
	send_header(&mut n, cx, &h7);
	send_cblock(&mut n, cx, &cb2);
	send_cblock(&mut n, cx, &cb3);
	send_header(&mut n, cx, &b3.header);
	send_tx(&mut n, cx, &t4);
	send_tx(&mut n, cx, &t5);
	send_kernel(&mut n, cx, k6);
	send_kernel(&mut n, cx, t4.kernels()[0].hash());
	let r = n.peer.send_stem_transaction(&t4);
	n.sent(cx, &format!("stem {}", hx(t4.kernels()[0].hash())), if r.is_ok() { "ok" } else { "err" }, true, &bodies(&t4), Some(sv(&t4, pv)), Type::StemTransaction);

	// --- a block we asked for while syncing arrives with the options of the request
	let b8 = cx.block(1, 1);
	let r = n.peer.send_block_request(b8.hash(), grin_chain::Options::SYNC);
	n.sent(cx, &format!("blockreq {} 2", hx(b8.hash())), if r.is_ok() { "ok" } else { "err" }, true, &bodies(&b8.hash()), Some(sv(&b8.hash(), pv)), Type::GetBlock);
	n.recv(cx, &format!("block {}", hx(b8.hash())), &frame_of(Type::Block, &b8, pv), 1, false, false);

	// --- responses are serialised at the negotiated version
	let sb = stored_block.clone();
	let stx = stored_tx.clone();
	n.recv(cx, &format!("getblock {} 1 {}", hx(sb.hash()), bodies(&sb)), &frame_of(Type::GetBlock, &sb.hash(), pv), 1, true, false);
	let other = hash32(&mut cx.rng);
	n.recv(cx, &format!("getblock {} 0 []", hx(other)), &frame_of(Type::GetBlock, &other, pv), 1, false, false);
	let scb: CompactBlock = sb.clone().into();
	n.recv(cx, &format!("getcblock {} 1 {}", hx(sb.hash()), bodies(&scb)), &frame_of(Type::GetCompactBlock, &sb.hash(), pv), 1, true, false);
	let k0 = stx.kernels()[0].hash();
	n.recv(cx, &format!("gettx {} 1 {}", hx(k0), bodies(&stx)), &frame_of(Type::GetTransaction, &k0, pv), 1, true, false);
	let pa = PeerAddrs { peers: n.ad.peers.clone() };
	n.recv(cx, &format!("getpeers {} {}", 15, bodies(&pa)), &frame_of(Type::GetPeerAddrs, &GetPeerAddrs { capabilities: Capabilities::from_bits_truncate(15) }, pv), 1, true, false);
	let hdrs = Headers { headers: vec![sb.header.clone()] };
	let loc = Locator { hashes: vec![hash32(&mut cx.rng), hash32(&mut cx.rng)] };
	n.recv(cx, &format!("getheaders 2 {}", bodies(&hdrs)), &frame_of(Type::GetHeaders, &loc, pv), 1, true, false);

	// --- the remaining arms of Protocol::consume: lists received, the archive request, the PIBD segment pairs
	let pa_in = PeerAddrs { peers: (0..cx.rng.below(6)).map(|_| gen_addr(&mut cx.rng)).collect() };
	n.recv(cx, &format!("peeraddrs {}", pa_in.peers.len()), &frame_of(Type::PeerAddrs, &pa_in, pv), 1, false, false);
	let hs_in = Headers { headers: vec![cx.header(), cx.header()] };
	n.recv(cx, "headers 2", &frame_of(Type::Headers, &hs_in, pv), 1, false, false);
	n.recv(cx, "headers 0", &frame_of(Type::Headers, &Headers { headers: vec![] }, pv), 1, false, false);
	// (headers received in a LIST are not remembered by the TrackingAdapter: they are still sent)
	send_header(&mut n, cx, &hs_in.headers[0]);
	let treq = TxHashSetRequest { hash: hash32(&mut cx.rng), height: cx.rng.below(1 << 30) };
	// no archive header (a chain error passed on by `?`: tolerated, nothing is sent, the connection stays)
	n.recv(cx, "txhashsetreq 0 0 - []", &frame_of(Type::TxHashSetRequest, &treq, pv), 1, false, false);
	let ah = cx.header();
	*n.ad.arch_hdr.lock().unwrap() = Some(ah.clone());
	n.recv(cx, "txhashsetreq 1 0 - []", &frame_of(Type::TxHashSetRequest, &treq, pv), 2, false, false);
	let served_len = *cx.rng.pick(&[0usize, 1, 7_999, 8_000, 8_001, 20_000]);
	let served = cx.rng.bytes(served_len);
	*n.ad.arch_data.lock().unwrap() = Some(served.clone());
	let aresp = TxHashSetArchive { height: ah.height, hash: ah.hash(), bytes: served.len() as u64 };
	n.recv(cx, &format!("txhashsetreq 1 1 {}:{} {}", served.len(), checksum(&served), bodies(&aresp)), &frame_of(Type::TxHashSetRequest, &treq, pv), 2, true, false);
	cx.stat(&format!("glue: archive served, {} bytes", served.len()));

	let seg_id = SegmentIdentifier { height: cx.rng.below(14) as u8, idx: cx.rng.below(1 << 20) };
	let bh = hash32(&mut cx.rng);
	let sreq = SegmentRequest { block_hash: bh, identifier: seg_id };
	let kinds = [("bitmap", Type::GetOutputBitmapSegment), ("output", Type::GetOutputSegment), ("rproof", Type::GetRangeProofSegment), ("kernel", Type::GetKernelSegment)];
	// nothing to serve: asked, not answered
	for (k, t) in kinds.iter() {
		n.recv(cx, &format!("getseg {} 0 []", k), &frame_of(*t, &sreq, pv), 1, false, false);
	}
	if let Some(store) = segs.clone() {
		*n.ad.segs.lock().unwrap() = Some(store.clone());
		use grin_p2p::msg::{OutputBitmapSegmentResponse, OutputSegmentResponse, SegmentResponse};
		let r_bitmap = OutputBitmapSegmentResponse { block_hash: bh, segment: store.bitmap.0.clone().into(), output_root: store.bitmap.1 };
		let r_output = OutputSegmentResponse { response: SegmentResponse { block_hash: bh, segment: store.output.0.clone() }, output_bitmap_root: store.output.1 };
		let r_rproof = SegmentResponse { block_hash: bh, segment: store.rproof.clone() };
		let r_kernel = SegmentResponse { block_hash: bh, segment: store.kernel.clone() };
		n.recv(cx, &format!("getseg bitmap 1 {}", bodies(&r_bitmap)), &frame_of(Type::GetOutputBitmapSegment, &sreq, pv), 1, true, false);
		n.recv(cx, &format!("getseg output 1 {}", bodies(&r_output)), &frame_of(Type::GetOutputSegment, &sreq, pv), 1, true, false);
		n.recv(cx, &format!("getseg rproof 1 {}", bodies(&r_rproof)), &frame_of(Type::GetRangeProofSegment, &sreq, pv), 1, true, false);
		n.recv(cx, &format!("getseg kernel 1 {}", bodies(&r_kernel)), &frame_of(Type::GetKernelSegment, &sreq, pv), 1, true, false);
		// the same four objects arriving as responses
		n.recv(cx, "seg bitmap", &frame_of(Type::OutputBitmapSegment, &r_bitmap, pv), 1, false, false);
		n.recv(cx, "seg output", &frame_of(Type::OutputSegment, &r_output, pv), 1, false, false);
		n.recv(cx, "seg rproof", &frame_of(Type::RangeProofSegment, &r_rproof, pv), 1, false, false);
		n.recv(cx, "seg kernel", &frame_of(Type::KernelSegment, &r_kernel, pv), 1, false, false);
		cx.stat("glue: four segment kinds served and received");
	} else {
		cx.stat("glue: no segment store (payload generator produced no decodable segment)");
	}

	// --- the underlying adapter FAILS (chain error) in every method whose result the handler passes through `?`:
	//     the handler stops there, nothing is answered, the connection stays; what the TrackingAdapter
	//     remembered before handing on stays remembered
	{
		let fail = |n: &Node, m: &str| *n.ad.fail.lock().unwrap() = Some(m.to_string());
		let (ptd, ph) = (cx.rng.below(1 << 50), cx.rng.below(1 << 40));
		let pingf = frame_of(Type::Ping, &Ping { total_difficulty: Difficulty::from_num(ptd), height: ph }, pv);
		fail(&n, "total_difficulty");
		n.recv(cx, &format!("@f:total_difficulty ping {} {}", ptd, ph), &pingf, 2, false, false);
		fail(&n, "total_height");
		n.recv(cx, &format!("@f:total_height ping {} {}", ptd, ph), &pingf, 3, false, false);
		let kf = hash32(&mut cx.rng);
		fail(&n, "tx_kernel_received");
		n.recv(cx, &format!("@f:tx_kernel_received kernel {}", hx(kf)), &frame_of(Type::TransactionKernel, &kf, pv), 1, false, false);
		send_kernel(&mut n, cx, kf);
		let tf = mk_tx(cx, 1);
		fail(&n, "transaction_received");
		n.recv(cx, &format!("@f:transaction_received tx {}", hx(tf.kernels()[0].hash())), &frame_of(Type::Transaction, &tf, pv), 1, false, false);
		send_tx(&mut n, cx, &tf);
		let bf = cx.block(1, 1);
		fail(&n, "block_received");
		n.recv(cx, &format!("@f:block_received block {}", hx(bf.hash())), &frame_of(Type::Block, &bf, pv), 1, false, false);
		send_header(&mut n, cx, &bf.header);
		let cbf: CompactBlock = cx.block(1, 1).into();
		fail(&n, "compact_block_received");
		n.recv(cx, &format!("@f:compact_block_received cblock {}", hx(cbf.hash())), &frame_of(Type::CompactBlock, &cbf, pv), 1, false, false);
		send_cblock(&mut n, cx, &cbf);
		let hf = cx.header();
		fail(&n, "header_received");
		n.recv(cx, &format!("@f:header_received header {}", hx(hf.hash())), &frame_of(Type::Header, &hf, pv), 1, false, false);
		send_header(&mut n, cx, &hf);
		fail(&n, "headers_received");
		n.recv(cx, "@f:headers_received headers 2", &frame_of(Type::Headers, &hs_in, pv), 1, false, false);
		let locf = Locator { hashes: vec![hash32(&mut cx.rng)] };
		fail(&n, "locate_headers");
		n.recv(cx, "@f:locate_headers getheaders 1 []", &frame_of(Type::GetHeaders, &locf, pv), 1, false, false);
		fail(&n, "txhashset_archive_header");
		n.recv(cx, "@f:txhashset_archive_header txhashsetreq 1 1 - []", &frame_of(Type::TxHashSetRequest, &treq, pv), 1, false, false);
		if let Some(store) = segs.clone() {
			use grin_p2p::msg::{OutputBitmapSegmentResponse, OutputSegmentResponse, SegmentResponse};
			let r_bitmap = OutputBitmapSegmentResponse { block_hash: bh, segment: store.bitmap.0.clone().into(), output_root: store.bitmap.1 };
			let r_output = OutputSegmentResponse { response: SegmentResponse { block_hash: bh, segment: store.output.0.clone() }, output_bitmap_root: store.output.1 };
			let r_rproof = SegmentResponse { block_hash: bh, segment: store.rproof.clone() };
			let r_kernel = SegmentResponse { block_hash: bh, segment: store.kernel.clone() };
			fail(&n, "receive_bitmap_segment");
			n.recv(cx, "@f:receive_bitmap_segment seg bitmap", &frame_of(Type::OutputBitmapSegment, &r_bitmap, pv), 1, false, false);
			fail(&n, "receive_output_segment");
			n.recv(cx, "@f:receive_output_segment seg output", &frame_of(Type::OutputSegment, &r_output, pv), 1, false, false);
			fail(&n, "receive_rangeproof_segment");
			n.recv(cx, "@f:receive_rangeproof_segment seg rproof", &frame_of(Type::RangeProofSegment, &r_rproof, pv), 1, false, false);
			fail(&n, "receive_kernel_segment");
			n.recv(cx, "@f:receive_kernel_segment seg kernel", &frame_of(Type::KernelSegment, &r_kernel, pv), 1, false, false);
		}
		// a failure scripted for a method the arm does not pass through `?` changes nothing; the connection is alive
		fail(&n, "header_received");
		n.recv(cx, &format!("@f:header_received ping {} {}", ptd, ph), &pingf, 3, true, false);
		*n.ad.fail.lock().unwrap() = None;
		if n.closed {
			cx.fails += 1;
			cx.raw("#ORACLE-FAIL C19 glue: a chain error of the adapter (passed on by `?`) closed the connection");
		}
		cx.stat("glue: adapter failures in 15 methods");
	}

	// --- the remaining `Peer::send_*` wrappers: the type byte and the body at the negotiated version
	let loc = Locator { hashes: (0..cx.rng.below(5)).map(|_| hash32(&mut cx.rng)).collect() };
	let r = n.peer.send_header_request(loc.hashes.clone());
	n.sent(cx, "headerreq", if r.is_ok() { "ok" } else { "err" }, true, &bodies(&loc), Some(sv(&loc, pv)), Type::GetHeaders);
	let hq = hash32(&mut cx.rng);
	let r = n.peer.send_tx_request(hq);
	n.sent(cx, "txreq", if r.is_ok() { "ok" } else { "err" }, true, &bodies(&hq), Some(sv(&hq, pv)), Type::GetTransaction);
	let hq = hash32(&mut cx.rng);
	let r = n.peer.send_compact_block_request(hq);
	n.sent(cx, "cblockreq", if r.is_ok() { "ok" } else { "err" }, true, &bodies(&hq), Some(sv(&hq, pv)), Type::GetCompactBlock);
	let gp = GetPeerAddrs { capabilities: Capabilities::from_bits_truncate(cx.rng.below(128) as u32) };
	let r = n.peer.send_peer_request(gp.capabilities);
	n.sent(cx, "peerreq", if r.is_ok() { "ok" } else { "err" }, true, &bodies(&gp), Some(sv(&gp, pv)), Type::GetPeerAddrs);
	let sq = SegmentRequest { block_hash: hash32(&mut cx.rng), identifier: SegmentIdentifier { height: cx.rng.below(14) as u8, idx: cx.rng.below(1 << 20) } };
	let r = n.peer.send_bitmap_segment_request(sq.block_hash, sq.identifier);
	n.sent(cx, "segreq bitmap", if r.is_ok() { "ok" } else { "err" }, true, &bodies(&sq), Some(sv(&sq, pv)), Type::GetOutputBitmapSegment);
	let r = n.peer.send_output_segment_request(sq.block_hash, sq.identifier);
	n.sent(cx, "segreq output", if r.is_ok() { "ok" } else { "err" }, true, &bodies(&sq), Some(sv(&sq, pv)), Type::GetOutputSegment);
	let r = n.peer.send_rangeproof_segment_request(sq.block_hash, sq.identifier);
	n.sent(cx, "segreq rproof", if r.is_ok() { "ok" } else { "err" }, true, &bodies(&sq), Some(sv(&sq, pv)), Type::GetRangeProofSegment);
	let r = n.peer.send_kernel_segment_request(sq.block_hash, sq.identifier);
	n.sent(cx, "segreq kernel", if r.is_ok() { "ok" } else { "err" }, true, &bodies(&sq), Some(sv(&sq, pv)), Type::GetKernelSegment);
	let br = BanReason { ban_reason: *cx.rng.pick(&[ReasonForBan::None, ReasonForBan::BadBlock, ReasonForBan::BadCompactBlock, ReasonForBan::BadBlockHeader, ReasonForBan::BadTxHashSet, ReasonForBan::ManualBan, ReasonForBan::FraudHeight, ReasonForBan::BadHandshake]) };
	let r = n.peer.send_ban_reason(br.ban_reason);
	n.sent(cx, "banreason", if r.is_ok() { "ok" } else { "err" }, true, &bodies(&br), Some(sv(&br, pv)), Type::BanReason);

	// --- the LRU of received hashes holds MAX_TRACK_SIZE = 30: 30 further hashes push the oldest ones out
	let ks: Vec<Hash> = (0..30).map(|_| hash32(&mut cx.rng)).collect();
	for (i, k) in ks.iter().enumerate() {
		n.recv(cx, &format!("kernel {}", hx(*k)), &frame_of(Type::TransactionKernel, k, pv), 1, false, false);
		if i == 23 {
			// 24 hashes behind k6 (b8, 23 … ): k6 is still remembered
			send_kernel(&mut n, cx, k6);
		}
	}
	send_kernel(&mut n, cx, k6);
	send_kernel(&mut n, cx, ks[0]);
	send_kernel(&mut n, cx, ks[29]);
	send_header(&mut n, cx, &h1);

	// --- an archive nobody asked for is refused; one we asked for is written to the file and handed over
	let att = cx.rng.bytes(if accept { 50_001 } else { 777 });
	let arch = TxHashSetArchive { hash: hash32(&mut cx.rng), height: cx.rng.below(1 << 30), bytes: att.len() as u64 };
	if remote_ver % 2 == 1 {
		// not ready / not requested: BadMessage, the connection is closed, the attachment bytes are never read as frames
		n.ad.ready.store(accept, Ordering::SeqCst);
		cx.line(&format!("codec glue ctl ready {}", if accept { 1 } else { 0 }), "ok");
		let mut f = frame_of(Type::TxHashSetArchive, &arch, pv);
		f.extend_from_slice(&att);
		f.extend_from_slice(&frame_of(Type::Ping, &Ping { total_difficulty: Difficulty::from_num(1), height: 2 }, pv));
		n.recv(cx, &format!("archive {} {} {}", hx(arch.hash), att.len(), checksum(&att)), &f, 1, false, true);
	} else {
		n.ad.ready.store(true, Ordering::SeqCst);
		cx.line("codec glue ctl ready 1", "ok");
		let (rh, rhash) = (cx.rng.below(1 << 30), hash32(&mut cx.rng));
		let r = n.peer.send_txhashset_request(rh, rhash);
		let req = TxHashSetRequest { hash: rhash, height: rh };
		n.sent(cx, "txhashsetreq", if r.is_ok() { "ok" } else { "err" }, true, &bodies(&req), Some(sv(&req, pv)), Type::TxHashSetRequest);
		let mut f = frame_of(Type::TxHashSetArchive, &arch, pv);
		f.extend_from_slice(&att);
		// ready, dl:0:n, tmpfile, one dl per chunk of <= 48000 bytes, the hand-over of the file
		let chunks = if att.is_empty() { 1 } else { (att.len() + 47_999) / 48_000 };
		if accept {
			// the chain refuses the archive (`txhashset_write` fails): a chain error, swallowed - same calls, nothing
			// answered, the connection stays (model: consumeGlueF … "txhashset_write" = chainErr)
			*n.ad.fail.lock().unwrap() = Some("txhashset_write".to_string());
			cx.stat("glue: txhashset_write fails at the end of an archive");
		}
		n.recv(cx, &format!("archive {} {} {}", hx(arch.hash), att.len(), checksum(&att)), &f, 3 + chunks + 1, false, false);
		// a second archive: the request has been used up
		let mut f = frame_of(Type::TxHashSetArchive, &arch, pv);
		f.extend_from_slice(&att);
		n.recv(cx, &format!("archive {} {} {}", hx(arch.hash), att.len(), checksum(&att)), &f, 1, false, true);
	}

	// --- a banned peer is told nothing and hung up on; a BanReason ends the connection
	if !n.closed {
		if remote_ver % 3 == 0 {
			n.recv(cx, "banreason", &frame_of(Type::BanReason, &BanReason { ban_reason: ReasonForBan::BadBlock }, pv), 0, false, true);
		} else {
			n.ad.banned.store(true, Ordering::SeqCst);
			cx.line("codec glue ctl ban 1", "ok");
			let (ptd, ph) = (cx.rng.below(1 << 50), cx.rng.below(1 << 40));
			n.recv(cx, &format!("ping {} {}", ptd, ph), &frame_of(Type::Ping, &Ping { total_difficulty: Difficulty::from_num(ptd), height: ph }, pv), 0, false, true);
		}
	}
	n.peer.stop();
	let _ = n.sock.shutdown(Shutdown::Both);
}

pub enum Rec {
	Line(String, String),
	Raw(String),
}

/// what a conversation needs of `Ctx`, so that the conversations can run concurrently and print afterwards
pub struct Lx {
	pub rng: Rng,
	pub recs: Vec<Rec>,
	pub fails: u64,
	pub stats: Vec<String>,
	pub headers: Vec<BlockHeader>,
}
impl Lx {
	fn line(&mut self, l: &str, r: &str) {
		self.recs.push(Rec::Line(l.to_string(), r.to_string()));
	}
	fn raw(&mut self, s: &str) {
		self.recs.push(Rec::Raw(s.to_string()));
	}
	fn stat(&mut self, s: &str) {
		self.stats.push(s.to_string());
	}
	fn header(&mut self) -> BlockHeader {
		// mined headers are distinct objects: vary a field the proof of work does not cover? No - every header
		// of the pool is used at most once per conversation
		self.headers.pop().expect("enough pre-mined headers")
	}
	fn block(&mut self, n_out: usize, n_kern: usize) -> Block {
		let header = self.header();
		let r = &mut self.rng;
		let outputs: Vec<Output> = (0..n_out).map(|_| gen_output(r)).collect();
		let kernels: Vec<TxKernel> = (0..n_kern).map(|_| gen_kernel(r)).collect();
		let body = TransactionBody::init(Inputs::from(Vec::<Input>::new().as_slice()), &outputs, &kernels, false).unwrap();
		Block { header, body }
	}
}

/// one decodable segment of every kind, taken from the payload generator of the `payload` run
fn seg_store(cx: &mut Ctx) -> Option<SegStore> {
	use grin_p2p::msg::{OutputBitmapSegmentResponse, OutputSegmentResponse, SegmentResponse};
	let frames = ext::payload_frames(cx, 1000);
	let body = |name: &str| frames.iter().find(|(n, _, _)| n == name).map(|(_, f, _)| f[11..].to_vec());
	fn de<T: ser::Readable>(b: &[u8]) -> Option<T> {
		ser::deserialize(&mut &b[..], ProtocolVersion(1000), DeserializationMode::default()).ok()
	}
	let k: SegmentResponse<TxKernel> = de(&body("KernelSegment")?)?;
	let o: OutputSegmentResponse = de(&body("OutputSegment")?)?;
	let r: SegmentResponse<RangeProof> = de(&body("RangeProofSegment")?)?;
	let b: OutputBitmapSegmentResponse = de(&body("OutputBitmapSegment")?)?;
	Some(SegStore { kernel: k.segment, bitmap: (b.segment.into_segment().ok()?, b.output_root), output: (o.response.segment, o.output_bitmap_root), rproof: r.segment })
}

pub fn glue(cx: &mut Ctx, work: &std::path::Path) {
	// (direction, remote version, remote capabilities): TX_KERNEL_HASH = 8
	let mut plan: Vec<(bool, u32, u32)> = vec![(true, 1000, 0), (true, 2, 15), (false, 1, 8), (false, 3, 7), (true, 1001, 0x7f)];
	if cx.thorough {
		plan.extend_from_slice(&[(true, 1, 0), (true, 3, 8), (false, 2, 0), (false, 1000, 15), (false, u32::MAX, 0), (true, 0, 8)]);
	}
	const NEED: usize = 18;
	let segs = seg_store(cx);
	while cx.pool.len() < NEED * plan.len() {
		let h = gen_header(&mut cx.rng);
		cx.pool.push(h);
	}
	let handles: Vec<_> = plan
		.iter()
		.enumerate()
		.map(|(i, (accept, rv, caps))| {
			let mut lx = Lx { rng: Rng::new(cx.rng.next()), recs: vec![], fails: 0, stats: vec![], headers: cx.pool[i * NEED..(i + 1) * NEED].to_vec() };
			let (accept, rv, caps, work) = (*accept, *rv, *caps, work.join(format!("glue-{}", i)));
			let segs = segs.clone();
			std::thread::spawn(move || {
				global::set_local_chain_type(ChainTypes::AutomatedTesting);
				let _ = std::fs::create_dir_all(&work);
				conversation(&mut lx, &work, i, accept, rv, caps, segs);
				lx
			})
		})
		.collect();
	for h in handles {
		match h.join() {
			Ok(lx) => {
				cx.fails += lx.fails;
				for s in &lx.stats {
					cx.stat(s);
				}
				for r in lx.recs {
					match r {
						Rec::Line(l, r) => cx.out.line(&l, &r),
						Rec::Raw(s) => cx.out.raw(&s),
					}
				}
			}
			Err(_) => {
				cx.fails += 1;
				cx.out.raw("#ORACLE-FAIL C19 glue conversation panicked");
			}
		}
	}
}
